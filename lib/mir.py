"""MIR fact model: bodies, CFG, dominators, edge dominance, call graph, term builder.

Everything here is a static analysis over the JSON facts written by the mirfacts driver;
no code of the analysed program is executed or interpreted.
"""
import json
import os
import re
from functools import lru_cache

CRATES = [
    "cgt_core", "cgt_money", "cgt_format", "cgt_formatter_plain", "cgt_formatter_pdf",
    "cgt_converter", "cgt_mcp", "cgt_wasm", "cgt_tool",
]


# --------------------------------------------------------------------------- places

def place_local(p):
    return p["l"]


def place_proj(p):
    return p.get("p", [])


def op_place(op):
    """place of a copy/move operand, or None for constants"""
    if "c" in op:
        return op["c"]
    if "m" in op:
        return op["m"]
    return None


def op_const(op):
    return op.get("k")


def proj_fields(p):
    """list of field names along a place projection"""
    return [e["n"] for e in place_proj(p) if isinstance(e, dict) and "n" in e]


def last_field(p):
    for e in reversed(place_proj(p)):
        if isinstance(e, dict) and "f" in e:
            return e
        if e == "deref":
            continue
        break
    return None


# --------------------------------------------------------------------------- body

class Body:
    def __init__(self, j, crate):
        self.j = j
        self.crate = crate
        self.id = j["id"]
        self.kind = j["kind"]
        self.file = j["file"]
        self.line = j["line"]
        self.end_line = j.get("end_line", j["line"])
        self.argc = j["argc"]
        self.mac = j.get("mac")
        self.parent = j.get("parent")
        self.vis = j.get("vis", "")
        self.locals = j["locals"]
        self.blocks = j["blocks"]
        self.promoted = j.get("promoted", {})
        self.ret = j.get("ret", "")
        self._succ = None
        self._pred = None
        self._dom = None
        self._defs = None
        self._reach = None

    # ---- naming
    @property
    def short(self):
        return self.id.split("::", 1)[1] if "::" in self.id else self.id

    def loc(self, sp=None):
        if sp is None:
            return f"{self.file}:{self.line}"
        if isinstance(sp, str) and sp.count(":") >= 2:
            return sp
        return f"{self.file}:{sp}"

    def local_name(self, l):
        return self.locals[l].get("name")

    def local_ty(self, l):
        return self.locals[l]["ty"]

    # ---- CFG (normal edges only; cleanup blocks are ignored)
    def is_cleanup(self, b):
        return bool(self.blocks[b].get("cleanup"))

    def term(self, b):
        return self.blocks[b]["term"]

    def stmts(self, b):
        return self.blocks[b]["stmts"]

    def succ(self, b):
        if self._succ is None:
            self._succ = [self._succ_of(i) for i in range(len(self.blocks))]
        return self._succ[b]

    def _succ_of(self, b):
        t = self.term(b)
        k = t["k"]
        if k == "goto":
            return [t["target"]]
        if k == "switch":
            out = [x[1] for x in t["targets"]] + [t["otherwise"]]
            seen = []
            for x in out:
                if x not in seen:
                    seen.append(x)
            return seen
        if k in ("call", "assert", "drop"):
            return [t["target"]] if t.get("target") is not None else []
        if k == "yield":
            return [t["target"]]
        return []

    def pred(self, b):
        if self._pred is None:
            self._pred = [[] for _ in self.blocks]
            for i in range(len(self.blocks)):
                if self.is_cleanup(i):
                    continue
                for s in self.succ(i):
                    self._pred[s].append(i)
        return self._pred[b]

    def reachable(self):
        """blocks reachable from entry through normal edges"""
        if self._reach is None:
            seen = {0}
            st = [0]
            while st:
                b = st.pop()
                for s in self.succ(b):
                    if s not in seen:
                        seen.add(s)
                        st.append(s)
            self._reach = seen
        return self._reach

    def reach_from(self, start, removed_edge=None, removed_blocks=()):
        seen = set()
        st = [start]
        if start in removed_blocks:
            return seen
        seen.add(start)
        while st:
            b = st.pop()
            for s in self.succ(b):
                if removed_edge is not None and (b, s) == removed_edge:
                    continue
                if s in removed_blocks or s in seen:
                    continue
                seen.add(s)
                st.append(s)
        return seen

    def dominators(self):
        """dom[b] = set of blocks dominating b (including b), over reachable blocks"""
        if self._dom is None:
            reach = self.reachable()
            order = sorted(reach)
            dom = {b: set(reach) for b in order}
            dom[0] = {0}
            changed = True
            while changed:
                changed = False
                for b in order:
                    if b == 0:
                        continue
                    ps = [p for p in self.pred(b) if p in reach]
                    if not ps:
                        new = {b}
                    else:
                        new = set.intersection(*(dom[p] for p in ps)) | {b}
                    if new != dom[b]:
                        dom[b] = new
                        changed = True
            self._dom = dom
        return self._dom

    def dominates(self, a, b):
        """block a dominates block b"""
        d = self.dominators()
        return b in d and a in d[b]

    def block_dominates_point(self, a, b):
        return self.dominates(a, b)

    def edge_dominates(self, edge, b):
        """every path from entry to b uses edge (s,t)"""
        if b not in self.reachable():
            return False
        return b not in self.reach_from(0, removed_edge=edge)

    def block_cuts(self, a, src, dst):
        """every path from src to dst passes through block a (a != src)"""
        if dst == a:
            return True
        return dst not in self.reach_from(src, removed_blocks=(a,))

    def postdominators(self):
        """pdom[b] = blocks on every path from b to an exit (return / diverging block), including b"""
        if getattr(self, "_pdom", None) is None:
            reach = sorted(b for b in self.reachable() if self.term(b)["k"] != "unreachable")
            allb = set(reach)
            pd = {b: set(allb) for b in reach}
            for b in reach:
                if not [s for s in self.succ(b) if s in allb]:
                    pd[b] = {b}
            changed = True
            while changed:
                changed = False
                for b in reversed(reach):
                    ss = [s for s in self.succ(b) if s in allb]
                    if not ss:
                        continue
                    new = set.intersection(*(pd[s] for s in ss)) | {b}
                    if new != pd[b]:
                        pd[b] = new
                        changed = True
            self._pdom = pd
        return self._pdom

    def control_dependents(self, s):
        """blocks whose execution depends on which way the branch at the end of block s goes"""
        pd = self.postdominators()
        if s not in pd:
            return set()
        strict = pd[s] - {s}
        out = set()
        for t in self.succ(s):
            if t not in pd:
                continue
            # walk t up its postdominator chain until the first strict postdominator of s
            for x in self.reachable():
                if x in pd[t] and x not in strict:
                    out.add(x)
        return out

    def return_blocks(self):
        return [b for b in self.reachable() if self.term(b)["k"] == "return"]

    def back_edges(self):
        out = []
        for b in self.reachable():
            for s in self.succ(b):
                if self.dominates(s, b):
                    out.append((b, s))
        return out

    def loops(self):
        """natural loops: list of (header, set(blocks))"""
        res = {}
        for (b, h) in self.back_edges():
            body = res.setdefault(h, {h})
            st = [b]
            while st:
                x = st.pop()
                if x in body:
                    continue
                body.add(x)
                st.extend(p for p in self.pred(x) if p in self.reachable())
        return sorted(res.items())

    def in_loop(self, b):
        return any(b in blks for _, blks in self.loops())

    # ---- iteration helpers
    def calls(self, include_cleanup=False):
        for i, bl in enumerate(self.blocks):
            if bl.get("cleanup") and not include_cleanup:
                continue
            if i not in self.reachable() and not include_cleanup:
                continue
            t = bl["term"]
            if t["k"] == "call":
                yield i, t

    def assigns(self):
        for i, bl in enumerate(self.blocks):
            if bl.get("cleanup") or i not in self.reachable():
                continue
            for si, s in enumerate(bl["stmts"]):
                if "lhs" in s:
                    yield i, si, s

    def terms_of_kind(self, k):
        for i, bl in enumerate(self.blocks):
            if bl.get("cleanup") or i not in self.reachable():
                continue
            if bl["term"]["k"] == k:
                yield i, bl["term"]

    # ---- definitions of locals
    def defs(self):
        """local -> list of ('assign', bb, si, stmt) | ('call', bb, term) for full definitions;
        also records partial writes and mutable borrows in self.mutated"""
        if self._defs is None:
            d = {}
            mutated = {}
            for i, si, s in self.assigns():
                lhs = s["lhs"]
                if not place_proj(lhs):
                    d.setdefault(lhs["l"], []).append(("assign", i, si, s))
                else:
                    if place_proj(lhs)[0] != "deref":
                        mutated.setdefault(lhs["l"], []).append((i, si))
                rv = s["rv"]
                if rv["k"] == "ref" and rv.get("mut"):
                    p = rv["p"]
                    if "deref" not in place_proj(p):
                        mutated.setdefault(p["l"], []).append((i, si))
            for i, t in self.calls():
                dest = t.get("dest")
                if dest is not None:
                    if not place_proj(dest):
                        d.setdefault(dest["l"], []).append(("call", i, t))
                    else:
                        mutated.setdefault(dest["l"], []).append((i, -1))
            for i, t in self.terms_of_kind("yield"):
                pass
            self._defs = d
            self.mutated = mutated
        return self._defs


# --------------------------------------------------------------------------- facts

class Facts:
    def __init__(self, facts_dir, crates=None):
        self.dir = facts_dir
        self.crates = {}
        self.bodies = {}
        self.adts = {}
        self.impls = []
        self.statics = []
        self.consts = {}
        for fn in sorted(os.listdir(facts_dir)):
            if not fn.endswith(".json") or fn.startswith("src"):
                continue
            if ".test." in fn:
                continue
            j = json.load(open(os.path.join(facts_dir, fn)))
            if "crate" not in j:
                continue
            if crates is not None and j["crate"] not in crates:
                continue
            cr = j["crate"]
            self.crates[cr] = {k: v for k, v in j.items() if k not in ("bodies",)}
            for b in j["bodies"]:
                body = Body(b, cr)
                self.bodies[body.id] = body
            for a in j["adts"]:
                a["crate"] = cr
                self.adts[a["path"]] = a
            for im in j["impls"]:
                im["crate"] = cr
                self.impls.append(im)
            for s in j["statics"]:
                s["crate"] = cr
                self.statics.append(s)
            for c in j["consts"]:
                self.consts[c["path"]] = c
        self._cg = None
        self._closures_of = None
        self._callers = None

    # ---- lookup
    def body(self, ident):
        return self.bodies.get(ident)

    def find(self, suffix, kind=None):
        """bodies whose id ends with ::suffix (or equals it)"""
        out = []
        for b in self.bodies.values():
            if b.id == suffix or b.id.endswith("::" + suffix):
                if kind is None or b.kind == kind:
                    out.append(b)
        return out

    def one(self, suffix):
        r = self.find(suffix)
        if len(r) != 1:
            raise RoleError(f"expected exactly one body named …::{suffix}, found {len(r)}")
        return r[0]

    def user_bodies(self, crate=None):
        for b in self.bodies.values():
            if crate is not None and b.crate != crate:
                continue
            yield b

    def is_derive(self, b):
        m = b.mac or ""
        return m.startswith("derive:")

    # ---- closures and call graph
    def children(self, ident):
        """closure/coroutine bodies lexically inside a fn (transitively)"""
        if self._closures_of is None:
            self._closures_of = {}
            for b in self.bodies.values():
                if b.parent:
                    self._closures_of.setdefault(b.parent, []).append(b.id)
        return self._closures_of.get(ident, [])

    def family(self, ident):
        """a fn plus all closures nested in it"""
        b = self.bodies.get(ident)
        root = b.parent if (b is not None and b.parent) else ident
        return [root] + [c for c in self.children(root)]

    def callgraph(self):
        if self._cg is None:
            cg = {}
            for b in self.bodies.values():
                out = set()
                for _, t in b.calls(include_cleanup=False):
                    out.add(t["callee"])
                    for a in t["args"]:
                        k = a.get("k")
                        if k and "fn" in k:
                            out.add(k["fn"])
                for _, _, s in b.assigns():
                    rv = s["rv"]
                    if rv["k"] in ("closure", "coroutine"):
                        out.add(rv["id"])
                    for k in _consts_in_rvalue(rv):
                        if "fn" in k:
                            out.add(k["fn"])
                # closures defined inside are considered callable from the parent
                for c in self.children(b.id):
                    cb = self.bodies[c]
                    if cb.parent == b.id:
                        out.add(c)
                cg[b.id] = out
            self._cg = cg
        return self._cg

    def callers(self, ident):
        if self._callers is None:
            self._callers = {}
            for src, outs in self.callgraph().items():
                for o in outs:
                    self._callers.setdefault(o, set()).add(src)
        return self._callers.get(ident, set())

    def reachable_from(self, roots, stop=()):
        cg = self.callgraph()
        seen = set()
        st = list(roots)
        parent = {}
        while st:
            x = st.pop()
            if x in seen or x in stop:
                continue
            seen.add(x)
            for y in cg.get(x, ()):
                if y not in seen:
                    parent.setdefault(y, x)
                    st.append(y)
        self._last_parent = parent
        return seen

    def path_to(self, target):
        """call path from the roots of the last reachable_from() to target"""
        p = [target]
        parent = getattr(self, "_last_parent", {})
        while p[-1] in parent and len(p) < 50:
            p.append(parent[p[-1]])
        return list(reversed(p))

    def call_sites(self, callee_pred, bodies=None):
        """yield (body, bb, term) for calls whose callee satisfies callee_pred"""
        bs = bodies if bodies is not None else self.bodies.values()
        for b in bs:
            for i, t in b.calls():
                if callee_pred(t["callee"]):
                    yield b, i, t


def _consts_in_rvalue(rv):
    out = []
    for key in ("op", "a", "b"):
        o = rv.get(key)
        if isinstance(o, dict) and "k" in o and isinstance(o["k"], dict):
            out.append(o["k"])
    for o in rv.get("ops", []) or []:
        if isinstance(o, dict) and "k" in o and isinstance(o["k"], dict):
            out.append(o["k"])
    return out


class RoleError(Exception):
    """an anchor (role) could not be resolved — the check is broken, not the property"""


# --------------------------------------------------------------------------- terms

DEC = "rust_decimal::decimal::Decimal"

_FORM_A = re.compile(r"^<(.+) as ([^>]+(?:<.*>)?)>::(\w+)$")
_FORM_B = re.compile(r"^(?:.*::)?<impl (.+?) for (.+)>::(\w+)$")


@lru_cache(maxsize=None)
def parse_callee(callee):
    """-> (self_ty or None, trait or None, method, plain_path)"""
    m = _FORM_A.match(callee)
    if m:
        return (m.group(1), m.group(2), m.group(3))
    m = _FORM_B.match(callee)
    if m:
        return (m.group(2), m.group(1), m.group(3))
    return (None, None, callee.rsplit("::", 1)[-1])


def _strip_ref(ty):
    ty = ty.strip()
    while ty.startswith("&"):
        ty = ty[1:].strip()
        if ty.startswith("'"):
            ty = ty.split(" ", 1)[1] if " " in ty else ty
        if ty.startswith("mut "):
            ty = ty[4:]
    return ty


def trait_base(tr):
    """core::ops::arith::Add<&Decimal> -> Add"""
    if tr is None:
        return None
    tr = tr.split("<", 1)[0]
    return tr.rsplit("::", 1)[-1]


def is_decimal_arith(callee):
    st, tr, m = parse_callee(callee)
    if st is None or _strip_ref(st) != DEC:
        return None
    tb = trait_base(tr)
    if tb in ("Add", "Sub", "Mul", "Div", "Rem", "Neg") and "ops::arith" in tr:
        return tb
    return None


def is_decimal_arith_assign(callee):
    st, tr, m = parse_callee(callee)
    if st is None or _strip_ref(st) != DEC:
        return None
    tb = trait_base(tr)
    if tb in ("AddAssign", "SubAssign", "MulAssign", "DivAssign", "RemAssign") and "ops::arith" in tr:
        return tb
    return None


def is_decimal_sum(callee):
    """Iterator::sum::<Decimal> / Sum for Decimal"""
    st, tr, m = parse_callee(callee)
    if m == "sum" and (tr is None or "Iterator" in (tr or "") or "Sum" in (tr or "")):
        return True
    if callee.endswith("::sum") and "Iterator" in callee:
        return True
    return False


_CMPM = {"lt": "Lt", "le": "Le", "gt": "Gt", "ge": "Ge", "eq": "Eq", "ne": "Ne"}


def cmp_op(callee):
    st, tr, m = parse_callee(callee)
    if m in _CMPM:
        if tr is not None and trait_base(tr) in ("PartialOrd", "PartialEq"):
            return _CMPM[m]
        if callee in ("core::cmp::PartialOrd::" + m, "core::cmp::PartialEq::" + m):
            return _CMPM[m]
    return None


_TRANSPARENT_TRAIT_METHODS = {
    ("Clone", "clone"), ("Deref", "deref"), ("DerefMut", "deref_mut"), ("AsRef", "as_ref"),
    ("Borrow", "borrow"), ("Into", "into"), ("From", "from"), ("IntoIterator", "into_iter"),
    ("ToOwned", "to_owned"),
}
_TRANSPARENT_PLAIN = re.compile(
    r"^(core::option::Option::<[^>]*>::(copied|cloned|as_ref|as_mut|as_deref|as_deref_mut)"
    r"|alloc::string::String::as_str|core::clone::Clone::clone|alloc::borrow::ToOwned::to_owned"
    r"|alloc::vec::Vec::<[^>]*>::as_slice|core::convert::Into::into|core::convert::From::from)$")


def is_transparent(callee):
    st, tr, m = parse_callee(callee)
    if tr is not None and (trait_base(tr), m) in _TRANSPARENT_TRAIT_METHODS:
        return True
    return bool(_TRANSPARENT_PLAIN.match(callee))


def T(*a):
    return tuple(a)


def flatten(op, items):
    out = []
    for x in items:
        if isinstance(x, tuple) and x and x[0] == op:
            out.extend(x[1])
        else:
            out.append(x)
    return out


def mk_add(items):
    items = flatten("+", items)
    items = [x for x in items if x != ("const", "Decimal::ZERO")]
    if not items:
        return ("const", "Decimal::ZERO")
    if len(items) == 1:
        return items[0]
    return ("+", tuple(sorted(items, key=repr)))


def mk_mul(items):
    items = flatten("*", items)
    items = [x for x in items if x != ("const", "Decimal::ONE")]
    if not items:
        return ("const", "Decimal::ONE")
    if len(items) == 1:
        return items[0]
    return ("*", tuple(sorted(items, key=repr)))


def mk_neg(x):
    if isinstance(x, tuple) and x[0] == "neg":
        return x[1]
    if isinstance(x, tuple) and x[0] == "+":
        return mk_add([mk_neg(y) for y in x[1]])
    return ("neg", x)


def const_term(k):
    """term for a constant operand"""
    if "int" in k:
        t = ("int", int(k["int"]))
        if "def" in k:
            return ("int", int(k["int"]), k["def"])
        return t
    if "str" in k:
        return ("str", k["str"])
    d = k.get("def") or k.get("disp") or ""
    if d.endswith("Decimal::ZERO"):
        return ("const", "Decimal::ZERO")
    if d.endswith("Decimal::ONE"):
        return ("const", "Decimal::ONE")
    if "fn" in k:
        return ("fn", k["fn"])
    if "promoted" in k:
        return ("promoted", k["promoted"])
    return ("const", d)


def mk_bin(op, a, b):
    """integer constant folding for comparisons against `CONST + 1`-style expressions"""
    if isinstance(a, tuple) and isinstance(b, tuple) and a and b and a[0] == "int" and b[0] == "int":
        x, y = a[1], b[1]
        if op == "Add":
            return ("int", x + y)
        if op == "Sub":
            return ("int", x - y)
        if op == "Mul":
            return ("int", x * y)
    return ("bin", op, a, b)


def mk_field(t, name):
    if isinstance(t, tuple) and t:
        if t[0] == "agg":
            for (fn, ft) in t[3]:
                if fn == name:
                    return ft
        if t[0] == "tuple":
            try:
                return t[1][int(name)]
            except (ValueError, IndexError):
                pass
        if t[0] == "ovf":  # (a op b, overflowed)
            if name == "0":
                return mk_bin(t[1], t[2], t[3])
            return ("ovf_flag", t[1], t[2], t[3])
        if t[0] == "phi":
            alts = tuple(sorted({mk_field(x, name) for x in t[1]}, key=repr))
            if len(alts) == 1:
                return alts[0]
            return ("phi", alts)
        if t[0] == "dc" and isinstance(t[1], tuple) and t[1] and t[1][0] == "agg":
            if t[1][2] == t[2]:
                return mk_field(t[1], name)
        if t[0] == "dc" and isinstance(t[1], tuple) and t[1] and t[1][0] == "phi":
            # a downcast selects the alternatives built as that very variant (`match ev { V { x } => x, .. }` over a value
            # returned by a small constructor function)
            alts = [a for a in t[1][1] if isinstance(a, tuple) and a and a[0] == "agg"]
            if alts and len(alts) == len(t[1][1]):
                hit = [a for a in alts if a[2] == t[2]]
                if len(hit) == 1:
                    return mk_field(hit[0], name)
        if t[0] == "dc" and t[2] == "Some" and name == "0":
            return mk_some(t[1])
    return ("field", t, name)


def mk_some(x):
    """payload of an Option known to be Some: reduces over a literal Some(..) and over φ (None alternatives dropped)"""
    if isinstance(x, tuple) and x:
        if x[0] == "agg" and x[1].endswith("option::Option"):
            if x[2] == "Some":
                for fn, ft in x[3]:
                    if fn == "0":
                        return ft
            return ("some", x)
        if x[0] == "phi":
            alts = [a for a in x[1] if not (isinstance(a, tuple) and a and a[0] == "agg" and a[1].endswith("option::Option") and a[2] == "None")]
            if alts and len(alts) < len(x[1]) or all(isinstance(a, tuple) and a and a[0] == "agg" for a in alts):
                return mk_phi([mk_some(a) for a in alts]) if alts else ("some", x)
    return ("some", x)


def mk_phi(alts):
    flat = set()
    for a in alts:
        if isinstance(a, tuple) and a and a[0] == "phi":
            flat.update(a[1])
        else:
            flat.add(a)
    flat = tuple(sorted(flat, key=repr))
    if len(flat) == 1:
        return flat[0]
    return ("phi", flat)


_ACTIVE = {"facts": None, "stack": ()}


def subst(t, args):
    """substitute ('param', i, name) by args[i], re-normalising on the way up"""
    if not isinstance(t, tuple) or not t:
        return t
    h = t[0]
    if h == "param":
        return args[t[1]] if t[1] < len(args) else t
    if h == "+":
        return mk_add([subst(x, args) for x in t[1]])
    if h == "*":
        return mk_mul([subst(x, args) for x in t[1]])
    if h == "neg":
        return mk_neg(subst(t[1], args))
    if h == "field":
        return mk_field(subst(t[1], args), t[2])
    if h == "some" and len(t) == 2:
        return mk_some(subst(t[1], args))
    if h == "call" and len(t) == 3 and "ops::function::Fn" in t[1] and parse_callee(t[1])[2] in ("call", "call_mut", "call_once"):
        # a call through a closure-typed PARAMETER (`f(x)` inside a generic helper): once the caller's closure / fn item
        # has been substituted for the parameter the call can be seen through
        a2 = tuple(subst(x, args) if isinstance(x, tuple) else x for x in t[2])
        f = _ACTIVE.get("facts")
        if f is not None and len(a2) == 2 and isinstance(a2[0], tuple) and a2[0] and isinstance(a2[1], tuple) and a2[1] and a2[1][0] == "tuple":
            if a2[0][0] == "closure" and a2[0][1] in f.bodies:
                summ = closure_summary(f, a2[0][1], 1, (), _ACTIVE.get("stack", ()))
                if summ is not None:
                    return subst(summ, [("tuple", tuple(a2[0][2]))] + list(a2[1][1]))
            if a2[0][0] == "fn" and a2[0][1] in f.bodies and a2[0][1] not in _ACTIVE.get("stack", ()):
                summ = summary(f, a2[0][1], 1, (), _ACTIVE.get("stack", ()))
                if summ is not None:
                    return subst(summ, list(a2[1][1]))
        return (h, t[1], a2)
    if h == "phi":
        return mk_phi([subst(x, args) for x in t[1]])
    if h == "agg":
        return ("agg", t[1], t[2], tuple((n, subst(x, args)) for n, x in t[3]))
    return tuple(subst(x, args) if isinstance(x, tuple) else x for x in t)


def _summary_cache(facts):
    # the cache lives on the facts object: an id()-keyed module dict would hand a later fact set (a mutant's) the summaries
    # of a collected earlier one whose id was reused
    c = getattr(facts, "_summary_memo", None)
    if c is None:
        c = facts._summary_memo = {}
    return c
# helpers larger than this are not inlined (a rule that needs to see through one big dispatcher raises them locally)
LIMITS = {"blocks": 80, "size": 500}


def summary(facts, callee, depth, stack=(), stops=()):
    """return-value term of a workspace fn in terms of its parameters (cached), or None"""
    _SUMMARY = _summary_cache(facts)
    key = (callee, depth, LIMITS["blocks"], LIMITS["size"], tuple(stops))
    if key in _SUMMARY:
        return _SUMMARY[key]
    cb = facts.bodies.get(callee)
    r = None
    if cb is not None and cb.kind in ("fn", "method") and len(cb.blocks) <= LIMITS["blocks"]:
        _SUMMARY[key] = None  # recursion guard
        sub = Terms(facts, cb, depth, _stack=stack + (callee,), stops=stops)
        r = sub.local(0)
        if _size(r) > LIMITS["size"]:
            r = None
    _SUMMARY[key] = r
    return r


def closure_summary(facts, callee, depth, stack=(), stops=()):
    """return-value term of a closure body: parameter 0 is the environment (captures as tuple fields), 1.. the arguments"""
    _SUMMARY = _summary_cache(facts)
    key = (callee, depth, "closure", LIMITS["blocks"], LIMITS["size"], tuple(stops))
    if key in _SUMMARY:
        return _SUMMARY[key]
    cb = facts.bodies.get(callee)
    r = None
    if cb is not None and len(cb.blocks) <= LIMITS["blocks"]:
        _SUMMARY[key] = None
        sub = Terms(facts, cb, depth, _stack=stack + (callee,), stops=stops)
        r = sub.local(0)
        if _size(r) > LIMITS["size"]:
            r = None
    _SUMMARY[key] = r
    return r


class Terms:
    """Copy-propagating symbolic term builder for one body.

    Terms are nested tuples. References/dereferences/clones are erased (value terms).
    A local with several definitions becomes ('phi', (t1, t2, …)); a local that is mutated
    in place (partial writes, &mut borrows) becomes ('var', name-or-index).
    Workspace helper calls are inlined up to `inline_depth`.
    """

    def __init__(self, facts, body, inline_depth=2, param_terms=None, _stack=(), stops=()):
        self.facts = facts
        _ACTIVE["facts"] = facts
        _ACTIVE["stack"] = tuple(stops)
        self._stops = tuple(stops)
        self.body = body
        self.inline_depth = inline_depth
        self.param_terms = param_terms
        self._memo = {}
        self._busy = set()
        self._stack = _stack
        self.inlined = set()
        body.defs()

    # -- public
    def operand(self, op):
        p = op_place(op)
        if p is not None:
            return self.place(p)
        k = op_const(op)
        if k is not None:
            if "promoted" in k:
                return self._promoted(k["promoted"])
            return const_term(k)
        return ("unknown", json.dumps(op)[:60])

    def _promoted(self, idx):
        items = self.body.promoted.get(str(idx)) or []
        # a promoted is a tiny body: usually `_1 = const X; _0 = &_1`
        for it in items:
            if it.get("k") == "use":
                k = op_const(it["op"])
                if k is not None:
                    return const_term(k)
            if it.get("k") in ("array", "tuple"):
                ops = [self._prom_op(o) for o in it.get("ops", [])]
                return (it["k"], tuple(ops))
            if it.get("k") == "agg":
                ops = [self._prom_op(o) for o in it.get("ops", [])]
                return ("agg", it.get("adt", "?"), it.get("variant", "?"), tuple(zip(it.get("fields", []), ops)))
            if it.get("k") == "call":
                return ("call", it["callee"], tuple(self._prom_op(o) for o in it.get("args", [])))
        return ("promoted", idx)

    def _prom_op(self, o):
        k = op_const(o)
        return const_term(k) if k is not None else ("unknown", "prom")

    def place(self, p):
        base = self.local(p["l"])
        return self.project(base, place_proj(p))

    def project(self, base, projs):
        t = base
        for e in projs:
            if e == "deref" or e == "opaque":
                continue
            if isinstance(e, dict):
                if "f" in e:
                    t = self.field(t, e.get("n", str(e["f"])), e)
                elif "dc" in e:
                    t = self.downcast(t, e["dc"])
                elif "idx" in e:
                    t = ("index", t, self.local(e["idx"]))
                elif "cidx" in e:
                    t = ("index", t, ("int", e["cidx"]))
                elif "sub" in e:
                    t = ("subslice", t, tuple(e["sub"]))
        return t

    def field(self, t, name, e=None):
        return mk_field(t, name)

    def downcast(self, t, variant):
        return ("dc", t, variant)

    def local(self, l):
        if l in self._memo:
            return self._memo[l]
        if l in self._busy:
            return ("var", self.body.local_name(l) or f"_{l}")
        self._busy.add(l)
        try:
            t = self._local(l)
        finally:
            self._busy.discard(l)
        self._memo[l] = t
        return t

    def _local(self, l):
        b = self.body
        name = b.local_name(l)
        if 1 <= l <= b.argc:
            if self.param_terms is not None:
                return self.param_terms[l - 1]
            return ("param", l - 1, name or f"_{l}")
        defs = b.defs().get(l, [])
        if l in b.mutated and len(defs) + len(b.mutated[l]) > 1:
            # mutated in place: opaque variable, but remember its initial value
            if len(defs) == 1:
                return ("var", name or f"_{l}", self._def_term(defs[0]))
            return ("var", name or f"_{l}")
        if not defs:
            return ("undef", name or f"_{l}")
        if len(defs) == 1:
            return self._def_term(defs[0])
        alts = set()
        for d in defs:
            alts.add(self._def_term(d))
        return mk_phi(alts)

    def _def_term(self, d):
        if d[0] == "assign":
            return self.rvalue(d[3]["rv"])
        return self.call_term(d[2])

    def rvalue(self, rv):
        k = rv["k"]
        if k == "use":
            return self.operand(rv["op"])
        if k in ("ref", "rawptr"):
            return self.place(rv["p"])
        if k == "bin":
            a = self.operand(rv["a"])
            c = self.operand(rv["b"])
            op = rv["op"]
            if op.endswith("WithOverflow"):
                return ("ovf", op[: -len("WithOverflow")], a, c)
            return mk_bin(op, a, c)
        if k == "un":
            return ("un", rv["op"], self.operand(rv["a"]))
        if k == "discr":
            return ("discr", self.place(rv["p"]))
        if k == "cast":
            return ("cast", self.operand(rv["op"]), rv.get("ty", ""))
        if k == "agg":
            fs = tuple((n, self.operand(o)) for n, o in zip(rv["fields"], rv["ops"]))
            return ("agg", rv["adt"], rv["variant"], fs)
        if k in ("tuple", "array"):
            return (k, tuple(self.operand(o) for o in rv["ops"]))
        if k in ("closure", "coroutine"):
            return ("closure", rv["id"], tuple(self.operand(o) for o in rv["ops"]))
        if k == "repeat":
            return ("repeat", self.operand(rv["op"]))
        return ("rv", rv.get("dbg", k)[:40])

    def call_term(self, t):
        callee = t["callee"]
        args = [self.operand(a) for a in t["args"]]
        return self.apply(callee, args, t)

    def apply(self, callee, args, t=None):
        ar = is_decimal_arith(callee)
        if ar:
            if ar == "Add":
                return mk_add(args)
            if ar == "Sub":
                return mk_add([args[0], mk_neg(args[1])])
            if ar == "Mul":
                return mk_mul(args)
            if ar == "Div":
                return ("/", args[0], args[1])
            if ar == "Neg":
                return mk_neg(args[0])
            if ar == "Rem":
                return ("%", args[0], args[1])
        c = cmp_op(callee)
        if c and len(args) == 2:
            return ("cmp", c, args[0], args[1])
        if is_transparent(callee) and len(args) == 1:
            return args[0]
        # a direct call of a closure value (`let f = |x| …; f(a)`): the closure body is part of this function's source
        cb = self.facts.bodies.get(callee)
        if cb is not None and cb.kind == "closure" and len(args) == 2 and callee not in self._stack and callee not in self._stops \
                and isinstance(args[0], tuple) and args[0] and args[0][0] == "closure" and args[0][1] == callee \
                and isinstance(args[1], tuple) and args[1] and args[1][0] == "tuple":
            summ = closure_summary(self.facts, callee, self.inline_depth, self._stack + (self.body.id,), self._stops)
            if summ is not None:
                self.inlined.add(callee)
                return subst(summ, [("tuple", tuple(args[0][2]))] + list(args[1][1]))
        # inline workspace helpers through their (cached) summaries
        if self.inline_depth > 0 and callee in self.facts.bodies and callee not in self._stack and callee not in self._stops:
            summ = summary(self.facts, callee, self.inline_depth - 1, self._stack + (self.body.id,), self._stops)
            if summ is not None:
                self.inlined.add(callee)
                return subst(summ, args)
        return ("call", callee, tuple(args))

    # -- switch / branch helpers
    def switch_cond(self, bb):
        t = self.body.term(bb)
        if t["k"] != "switch":
            return None
        return self.operand(t["discr"])


def expand_closures(facts, t, depth=2):
    """replace ('closure', id, captures) by ('closure_ret', id, <return term with upvars substituted>) so that the
    data a closure reads becomes visible in the enclosing term"""
    if not isinstance(t, tuple) or not t or depth < 0:
        return t
    if t[0] == "closure" and t[1] in facts.bodies:
        cb = facts.bodies[t[1]]
        ct = Terms(facts, cb, inline_depth=1)
        r = ct.local(0)
        caps = t[2]

        def sub(x):
            if not isinstance(x, tuple) or not x:
                return x
            if x[0] == "field" and isinstance(x[1], tuple) and x[1] and x[1][0] == "param" and x[1][1] == 0:
                try:
                    return caps[int(x[2])]
                except (ValueError, IndexError):
                    return x
            return tuple(sub(y) if isinstance(y, tuple) else y for y in x)
        return ("closure_ret", t[1], expand_closures(facts, sub(r), depth - 1))
    return tuple(expand_closures(facts, x, depth) if isinstance(x, tuple) else x for x in t)


def _size(t):
    if not isinstance(t, tuple):
        return 1
    return 1 + sum(_size(x) for x in t)


def strip_inl(t):
    """remove ('inl', callee, r) wrappers -> r ; ('some', x) -> x"""
    if not isinstance(t, tuple):
        return t
    if t and t[0] == "inl":
        return strip_inl(t[2])
    return tuple(strip_inl(x) for x in t)


def subterms(t):
    yield t
    if isinstance(t, tuple):
        for x in t:
            if isinstance(x, tuple):
                yield from subterms(x)


def contains(t, pred):
    return any(pred(x) for x in subterms(t))


def fields_in(t):
    """all ('field', base, name) names appearing in a term"""
    return {x[2] for x in subterms(t) if isinstance(x, tuple) and len(x) == 3 and x[0] == "field"}


def calls_in(t):
    return {x[1] for x in subterms(t) if isinstance(x, tuple) and x and x[0] in ("call", "inl")}


def show(t, depth=0):
    """compact human rendering of a term"""
    if not isinstance(t, tuple):
        return str(t)
    if depth > 8:
        return "…"
    if not t:
        return "()"
    h = t[0]
    d = depth + 1
    if h == "param":
        return f"{t[2]}"
    if h == "field":
        return f"{show(t[1], d)}.{t[2]}"
    if h == "dc":
        return f"({show(t[1], d)} as {t[2]})"
    if h == "some":
        return f"some({show(t[1], d)})"
    if h == "+":
        return "(" + " + ".join(show(x, d) for x in t[1]) + ")"
    if h == "*":
        return "(" + " * ".join(show(x, d) for x in t[1]) + ")"
    if h == "/":
        return f"({show(t[1], d)} / {show(t[2], d)})"
    if h == "neg":
        return f"-{show(t[1], d)}"
    if h == "cmp":
        return f"({show(t[2], d)} {t[1]} {show(t[3], d)})"
    if h == "bin":
        return f"({show(t[2], d)} {t[1]} {show(t[3], d)})"
    if h == "call":
        short = t[1].split("::")[-1] if not t[1].startswith("<") else t[1].split(">::")[-1]
        return f"{short}(" + ", ".join(show(x, d) for x in t[2]) + ")"
    if h == "inl":
        return f"[{t[1].split('::')[-1]}→{show(t[2], d)}]"
    if h == "phi":
        return "φ{" + " | ".join(show(x, d) for x in t[1]) + "}"
    if h == "var":
        return f"var:{t[1]}"
    if h == "const":
        return t[1].split("::")[-1] if "::" in t[1] else t[1]
    if h == "int":
        return str(t[1])
    if h == "str":
        return json.dumps(t[1])
    if h == "agg":
        return f"{t[1].split('::')[-1]}::{t[2]}{{" + ", ".join(f"{n}: {show(x, d)}" for n, x in t[3]) + "}"
    if h in ("tuple", "array"):
        return "(" + ", ".join(show(x, d) for x in t[1]) + ")"
    if not isinstance(h, str):
        return "(" + ", ".join(show(x, d) for x in t) + ")"
    return h + "(" + ", ".join(show(x, d) for x in t[1:]) + ")"
