"""A validator written as data: per operation variant a vector of tagged checks (`FieldCheck { value, sign }`), and ONE judge
method that decides from `value.cmp(&ZERO)` and the tag whether the check is violated.  The sign table the property asks for is
the composition of two small tables read off the MIR:

  table function   variant field  ->  tag      (constructor calls in the arms of the match on the operation; the constructor's
                                                own body says which tag it sets and which parameter becomes the value)
  judge            tag x ordering ->  error?   (every path of the judge, with the switches on the ordering and on the tag folded)

Nothing is executed; both are path enumerations over a few dozen blocks."""
from mir import Terms, parse_callee, op_place, op_const, place_proj, subterms

ORD = {"0": "0", "1": "+"}          # Ordering::Equal = 0, Greater = 1, Less = -1 (printed as 255 / -1 / 2^64-1)


def _ord_class(v):
    return ORD.get(v, "-")


def _ctor_info(F, c):
    """constructor `fn(label, value) -> T { T { value, sign: Tag::X, .. } }` -> (adt, value parameter index, tag field, tag variant)"""
    tb = Terms(F, c, inline_depth=0)
    for i, si, s in c.assigns():
        rv = s["rv"]
        if rv["k"] == "agg" and rv.get("fields") and "::validation::" in rv["adt"]:
            vals = {n: tb.operand(o) for n, o in zip(rv["fields"], rv["ops"])}
            tag = [(n, v) for n, v in vals.items() if isinstance(v, tuple) and v and v[0] == "agg" and not v[3] and "::validation::" in v[1]]
            val = []
            for n, v in vals.items():
                x = v
                while isinstance(x, tuple) and x and x[0] == "field":
                    x = x[1]
                if isinstance(x, tuple) and x and x[0] == "param" and "Decimal" in (c.local_ty(x[1] + 1) + " " + n) or \
                        (isinstance(x, tuple) and x and x[0] == "param" and "CurrencyAmount" in c.local_ty(x[1] + 1)):
                    if "str" not in c.local_ty(x[1] + 1):
                        val.append((n, x[1]))
            if len(tag) == 1 and len(val) == 1:
                return rv["adt"], val[0][1], val[0][0], tag[0][0], tag[0][1][2]
    return None


def _judge_table(F, j, value_field, tag_field, tag_adt):
    """{tag variant: set of sign classes for which the judge returns Some(..)} by path enumeration"""
    names = [v["name"] for v in (F.adts.get(tag_adt) or {"variants": []})["variants"]]
    if not names or len(j.blocks) > 80:
        return None
    tb = Terms(F, j, inline_depth=0)

    def kind_of_discr(bb, t):
        p = op_place(t["discr"])
        if p is None:
            return None
        for st in reversed(j.stmts(bb)):
            if st.get("lhs", {}).get("l") == p["l"] and st.get("rv", {}).get("k") == "discr":
                term = tb.place(st["rv"]["p"])
                txt = [x for x in subterms(term)]
                if any(isinstance(x, tuple) and x and x[0] == "call" and parse_callee(x[1])[2] in ("cmp", "partial_cmp") for x in txt):
                    return "ord"
                if any(isinstance(x, tuple) and len(x) == 3 and x[0] == "field" and x[2] == tag_field for x in txt):
                    return "tag"
        return None
    out = {n: set() for n in names}
    count = [0]

    def walk(bb, ords, tags, seen, ret):
        count[0] += 1
        if count[0] > 5000 or bb in seen:
            return
        for st in j.stmts(bb):
            lhs = st.get("lhs")
            if lhs and lhs["l"] == 0 and not place_proj(lhs) and "rv" in st:
                rv = st["rv"]
                if rv["k"] == "agg" and rv.get("variant") in ("Some", "None"):
                    ret = rv["variant"]
        t = j.term(bb)
        if t["k"] == "return":
            if ret == "Some":
                for tg in tags:
                    out[tg] |= ords
            return
        if t["k"] == "switch":
            kd = kind_of_discr(bb, t)
            explicit = [v for v, _ in t["targets"]]
            for v, tgt in t["targets"] + [("otherwise", t["otherwise"])]:
                if j.term(tgt)["k"] == "unreachable":
                    continue
                o2, t2 = ords, tags
                if kd == "ord":
                    o2 = ords & ({_ord_class(v)} if v != "otherwise" else {"-", "0", "+"} - {_ord_class(x) for x in explicit})
                elif kd == "tag":
                    t2 = tags & ({names[int(v)]} if v != "otherwise" and v.isdigit() and int(v) < len(names)
                                 else set(names) - {names[int(x)] for x in explicit if x.isdigit() and int(x) < len(names)})
                if o2 and t2:
                    walk(tgt, o2, t2, seen | {bb}, ret)
            return
        for s in j.succ(bb):
            walk(s, ords, tags, seen | {bb}, ret)
    walk(0, {"-", "0", "+"}, set(names), frozenset(), None)
    if count[0] > 5000:
        return None
    return out


def tagged_table(F, validator, variant_field):
    """-> ({(Variant, field): sign classes reported}, description) for a table-driven validator, or None.
    variant_field: function term -> (Variant, field) (shared with the guard-reading form of the rule)"""
    mod = validator.id.rsplit("::", 1)[0]
    fam = [b for b in F.bodies.values() if b.id.startswith(mod + "::")]
    tables = [b for b in fam if b.kind in ("fn", "method") and b.ret.startswith("alloc::vec::Vec<") and "::validation::" in b.ret
              and any(t["callee"] == b.id for x in fam for _, t in x.calls())]
    for tf in tables:
        ttb = Terms(F, tf, inline_depth=0)
        rows = []
        ctors = {}
        for i, t in tf.calls():
            c = F.bodies.get(t["callee"])
            if c is None or not c.id.startswith(mod + "::"):
                continue
            info = ctors.get(c.id) or _ctor_info(F, c)
            if info is None:
                continue
            ctors[c.id] = info
            adt, vpar, vfield, tfield, tagv = info
            if vpar >= len(t["args"]):
                continue
            term = ttb.operand(t["args"][vpar])
            alts = term[1] if isinstance(term, tuple) and term and term[0] == "phi" else (term,)
            for a in alts:
                vf = variant_field(a)
                if vf and vf[1]:
                    rows.append((vf, tagv))
        if len(rows) < 6:
            continue
        adt, vpar, vfield, tfield, _ = next(iter(ctors.values()))
        a = F.adts.get(adt)
        tag_adt = None
        if a:
            for v in a["variants"]:
                for f in v["fields"]:
                    if f["name"] == tfield:
                        tag_adt = f["ty"]
        judges = [b for b in fam if b.kind == "method" and b.argc >= 1 and adt.split("::")[-1] in b.local_ty(1) and "Option<alloc::string::String>" in b.ret]
        if not tag_adt or len(judges) != 1:
            continue
        jt = _judge_table(F, judges[0], vfield, tfield, tag_adt)
        if jt is None:
            continue
        got = {}
        for vf, tagv in rows:
            got.setdefault(vf, set()).update(jt.get(tagv, set()))
        return got, (f"table `{tf.short}` ({len(rows)} tagged checks) judged by `{judges[0].short}`: " +
                     ", ".join(f"{k} → {sorted(v)}" for k, v in sorted(jt.items())))
    return None
