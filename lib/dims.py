"""Dimension discipline for Decimal arithmetic in the matcher / calculator: every Decimal is a number of SHARES (Q), an amount of
MONEY (M), a unit price (M/Q) or a pure RATIO (1).  Adding, subtracting, comparing or accumulating two values of different
dimension is a slip of the "wrong variable" kind (a cost where a quantity was meant) that type checking cannot see.

Dimensions are inferred, never assumed when in doubt:
  leaves   fields of the report / ledger model by NAME (amount, quantity, consumed … -> Q; price -> M/Q; fees, total_cost,
           cost_offset, proceeds … -> M; ratio -> 1), named locals and parameters by the same vocabulary, constants -> any
  calls    Decimal arithmetic combines dimensions (x: add exponents, /: subtract); abs/min/max/round keep; a workspace function
           returns the dimension of what it returns (its returned local or term), memoised
  unknown  anything else is unknown and no claim is made about it.
A violation needs BOTH sides known and different."""
import re

from mir import Terms, parse_callee, subterms, op_place, op_const, place_proj, is_decimal_arith_assign

Q, M, U, R = (1, 0), (0, 1), (-1, 1), (0, 0)        # (shares exponent, money exponent)
NAMES = {Q: "shares", M: "money", U: "money per share", R: "ratio"}

Q_WORDS = ("quantity", "qty", "shares", "consumed", "reserved", "in_pool", "original_amount", "remaining", "held", "available", "matched_qty",
           "units", "sold", "claimed", "matched", "to_consume", "proportional", "pooled")
M_WORDS = ("cost", "fees", "fee", "expenses", "proceeds", "gain", "loss", "total_value", "value", "tax", "offset", "basis", "expenditure", "net_value",
           "adjustment", "income")
U_WORDS = ("price", "unit_cost", "per_share", "cost_per", "average_cost", "avg_cost", "cost_basis")
R_WORDS = ("ratio", "fraction", "factor", "proportion", "share_of")


def dim_of_name(name, owner_ty=""):
    if not name:
        return None
    n = name.lower()
    if n == "amount":
        return M if "CurrencyAmount" in owner_ty else Q
    for w in U_WORDS:
        if w in n:
            return U
    for w in R_WORDS:
        if w in n:
            return R
    qh = any(w in n for w in Q_WORDS)
    mh = any(w in n for w in M_WORDS)
    if qh and not mh:
        return Q
    if mh and not qh:
        return M
    return None


def _mul(a, b):
    return (a[0] + b[0], a[1] + b[1])


def _div(a, b):
    return (a[0] - b[0], a[1] - b[1])


class Dims:
    def __init__(self, F):
        self.F = F
        self._ret = {}

    def ret_dim(self, fid, depth=0):
        if fid in self._ret:
            return self._ret[fid]
        self._ret[fid] = None
        b = self.F.bodies.get(fid)
        d = None
        if b is not None and "Decimal" in b.ret and not b.ret.startswith(("core::result::Result<(", "(")) and depth < 4:
            # the named local(s) assigned to the return place, else the returned term
            ds = set()
            for i, si, s in b.assigns():
                if s["lhs"]["l"] == 0 and not place_proj(s["lhs"]):
                    rv = s["rv"]
                    if rv["k"] == "use":
                        p = op_place(rv["op"])
                        if p is not None and not place_proj(p):
                            nm = b.local_name(p["l"])
                            dn = dim_of_name(nm)
                            if dn is not None:
                                ds.add(dn)
                                continue
                    tb = Terms(self.F, b, inline_depth=0)
                    ds.add(self.dim(b, tb.rvalue(rv), depth + 1))
            for i, t in b.calls():
                dst = t.get("dest")
                if dst and dst.get("l") == 0 and not place_proj(dst):
                    tb = Terms(self.F, b, inline_depth=0)
                    ds.add(self.dim(b, tb.call_term(t), depth + 1))
            ds.discard(None)            # constant returns (ZERO) say nothing
            if len(ds) == 1:
                d = next(iter(ds))
        self._ret[fid] = d
        return d

    def dim(self, b, t, depth=0):
        """dimension of a term of body b, or None"""
        if not isinstance(t, tuple) or not t or depth > 10:
            return None
        k = t[0]
        if k in ("const", "int", "lit"):
            return None
        if k == "field":
            base = t[1]
            owner = ""
            if isinstance(base, tuple) and base and base[0] == "field":
                d0 = None
                # x.price.amount : amount of a money value keeps the dimension of the money value
                if t[2] == "amount":
                    d0 = self.dim(b, base, depth + 1)
                    if d0 is not None:
                        return d0
            if isinstance(base, tuple) and base and base[0] == "param" and base[1] < b.argc:
                owner = b.local_ty(base[1] + 1)
            return dim_of_name(t[2], owner)
        if k in ("var", "param"):
            nm = t[1] if k == "var" else (t[2] if len(t) > 2 else None)
            d = dim_of_name(nm if isinstance(nm, str) else None)
            if d is None and k == "var" and len(t) > 2:
                return self.dim(b, t[2], depth + 1)
            return d
        if k in ("some", "ref", "deref", "copy", "cast"):
            return self.dim(b, t[-1], depth + 1)
        if k == "dc":
            return self.dim(b, t[1], depth + 1)
        if k == "phi":
            ds = {self.dim(b, a, depth + 1) for a in t[1]}
            ds.discard(None)
            return next(iter(ds)) if len(ds) == 1 else None
        if k in ("*", "/"):
            if k == "*":
                out = R
                for x in t[1]:
                    d = self.dim(b, x, depth + 1)
                    if d is None:
                        return None
                    out = _mul(out, d)
                return out
            a, c = self.dim(b, t[1], depth + 1), self.dim(b, t[2], depth + 1)
            return _div(a, c) if a is not None and c is not None else None
        if k in ("+", "-"):
            ds = {self.dim(b, x, depth + 1) for x in (t[1] if isinstance(t[1], (list, tuple)) and t[1] and isinstance(t[1][0], tuple) else t[1:])}
            ds.discard(None)
            return next(iter(ds)) if len(ds) == 1 else None
        if k == "call":
            st, tr, m = parse_callee(t[1])
            args = t[2]
            if tr and ("ops::arith::Mul" in tr) and len(args) == 2:
                a, c = self.dim(b, args[0], depth + 1), self.dim(b, args[1], depth + 1)
                return _mul(a, c) if a is not None and c is not None else None
            if tr and ("ops::arith::Div" in tr) and len(args) == 2:
                a, c = self.dim(b, args[0], depth + 1), self.dim(b, args[1], depth + 1)
                return _div(a, c) if a is not None and c is not None else None
            if tr and ("ops::arith::Add" in tr or "ops::arith::Sub" in tr) and len(args) == 2:
                ds = {self.dim(b, args[0], depth + 1), self.dim(b, args[1], depth + 1)}
                ds.discard(None)
                return next(iter(ds)) if len(ds) == 1 else None
            if m in ("abs", "min", "max", "round_dp", "round_dp_with_strategy", "normalize", "clone", "copied", "cloned", "unwrap_or", "unwrap_or_default",
                     "unwrap_or_else", "deref", "neg") and args:
                return self.dim(b, args[0], depth + 1)
            if t[1] in self.F.bodies:
                return self.ret_dim(t[1], depth + 1)
            if m in ("get", "remove", "entry", "or_insert", "or_default", "get_mut", "sum"):
                return None
        return None

    def conflicts(self, bodies):
        """[(body, block, kind, lhs dim, rhs dim, site term)] for +, -, +=, -=, comparisons of two known, different dimensions;
        self.judged counts the sites where both dimensions were known"""
        out = []
        self.judged = 0
        for b in bodies:
            tb = None
            for i, t in b.calls():
                st, tr, m = parse_callee(t["callee"])
                kind = is_decimal_arith_assign(t["callee"])
                is_addsub = (tr and ("ops::arith::Add" in tr or "ops::arith::Sub" in tr)) or kind in ("AddAssign", "SubAssign")
                is_cmp = tr and ("cmp::PartialOrd" in tr or "cmp::PartialEq" in tr or "cmp::Ord" in tr) and m in ("lt", "le", "gt", "ge", "eq", "ne", "cmp", "min", "max")
                if not (is_addsub or is_cmp) or len(t["args"]) != 2:
                    continue
                if "Decimal" not in " ".join(t.get("aty") or []) + t["callee"]:
                    continue
                tb = tb or Terms(self.F, b, inline_depth=0)
                a0, a1 = tb.operand(t["args"][0]), tb.operand(t["args"][1])
                if kind in ("AddAssign", "SubAssign"):
                    # target: &mut place — its dimension from the place's own name
                    p = op_place(t["args"][0])
                    d0 = self.dim(b, tb.place(p), 0) if p is not None else None
                    if d0 is None and p is not None:
                        d0 = self.dim(b, a0, 0)
                else:
                    d0 = self.dim(b, a0, 0)
                d1 = self.dim(b, a1, 0)
                if d0 is not None and d1 is not None and d0 in NAMES and d1 in NAMES:
                    self.judged += 1
                    if d0 != d1:
                        out.append((b, i, m if not kind else kind, d0, d1, t))
        return out
