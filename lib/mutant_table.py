"""Seeded one-instance breaks per property (thorough tier) and behaviour-preserving variants that must stay silent.
Each edit is (file, exact text to find, replacement). A mutant whose anchor text no longer exists is reported as
not-applicable (the source moved on), never as a failure."""

M = "crates/cgt-core/src/matcher/mod.rs"
BNB = "crates/cgt-core/src/matcher/bed_and_breakfast.rs"
S104 = "crates/cgt-core/src/matcher/section104.rs"
SD = "crates/cgt-core/src/matcher/same_day.rs"
LED = "crates/cgt-core/src/matcher/acquisition_ledger.rs"
CALC = "crates/cgt-core/src/calculator.rs"
MODELS = "crates/cgt-core/src/models.rs"
PEST = "crates/cgt-core/src/parser.pest"
PARSER = "crates/cgt-core/src/parser.rs"
DSL = "crates/cgt-core/src/dsl.rs"
AMOUNT = "crates/cgt-money/src/amount.rs"
CACHE = "crates/cgt-money/src/cache.rs"
LOADER = "crates/cgt-money/src/loader.rs"
MPARSER = "crates/cgt-money/src/parser.rs"
MAIN = "crates/cgt-cli/src/main.rs"
SERVER = "crates/cgt-mcp/src/server.rs"
OUTPUT = "crates/cgt-converter/src/output.rs"
SCHWAB = "crates/cgt-converter/src/schwab/mod.rs"
AWARDS = "crates/cgt-converter/src/schwab/awards.rs"
TRANS = "crates/cgt-converter/src/schwab/transactions.rs"
FORMAT = "crates/cgt-format/src/lib.rs"
PLAIN = "crates/cgt-formatter-plain/src/lib.rs"
VALID = "crates/cgt-core/src/validation.rs"
WASM = "crates/cgt-wasm/src/lib.rs"
PDFLIB = "crates/cgt-formatter-pdf/src/lib.rs"
CONFIG = "crates/cgt-core/src/config.rs"
TYP = "crates/cgt-formatter-pdf/src/templates/report.typ"


def mut(id, what, edits, expect=None, neutral=False):
    return {"id": id, "what": what, "edits": edits, "expect": expect or [], "neutral": neutral}


SWAP_BNB_S104 = (M,
                 """        // 2. Bed & Breakfast matching (30-day rule)
        let bnb_matched = bed_and_breakfast::match_bed_and_breakfast(
            tx,
            sell_idx,
            &mut remaining,
            all_transactions,
            cost_offsets,
            future_consumption,
            same_day_reservations,
        )?;
        for m in bnb_matched {
            self.matches.push(m);
        }

        // 3. Section 104 pool
        if remaining > Decimal::ZERO {
            let s104_matched = section104::match_section_104(self, tx, &mut remaining, *amount)?;
            if let Some(m) = s104_matched {
                self.matches.push(m);
            }
        }
""",
                 """        // 3. Section 104 pool
        if remaining > Decimal::ZERO {
            let s104_matched = section104::match_section_104(self, tx, &mut remaining, *amount)?;
            if let Some(m) = s104_matched {
                self.matches.push(m);
            }
        }

        // 2. Bed & Breakfast matching (30-day rule)
        let bnb_matched = bed_and_breakfast::match_bed_and_breakfast(
            tx,
            sell_idx,
            &mut remaining,
            all_transactions,
            cost_offsets,
            future_consumption,
            same_day_reservations,
        )?;
        for m in bnb_matched {
            self.matches.push(m);
        }
""")

MUTANTS = {
    "C01": [
        mut("dedup-lines", "identical adjacent lines collapsed before matching", [(M, "        transactions.sort_by(|a, b| a.date.cmp(&b.date));\n", "        transactions.sort_by(|a, b| a.date.cmp(&b.date));\n        transactions.dedup();\n")], ["R10:"]),
        mut("swap-bnb-s104", "pool matching before 30-day matching", [SWAP_BNB_S104], ["R1:cascade:order"]),
        mut("window-31", "window constant 31", [(BNB, "const BNB_WINDOW_DAYS: i64 = 30;", "const BNB_WINDOW_DAYS: i64 = 31;")], ["R3:window:interval"]),
        mut("window-ge", "day 30 excluded (>=)", [(BNB, "if days_diff > BNB_WINDOW_DAYS {", "if days_diff >= BNB_WINDOW_DAYS {")], ["R3:window:interval"]),
        mut("window-same-day-in", "same day admitted (< 0)", [(BNB, "if days_diff <= 0 {", "if days_diff < 0 {")], ["R3:window:interval"]),
        mut("window-reversed-diff", "sale − candidate", [(BNB, "let days_diff = (tx.date - sell_tx.date).num_days();", "let days_diff = (sell_tx.date - tx.date).num_days();")], ["R3:window:orientation"]),
        mut("s104-unguarded", "pool consulted even if nothing remains", [(M, "        if remaining > Decimal::ZERO {\n            let s104_matched", "        if remaining >= Decimal::ZERO {\n            let s104_matched")], ["R1:cascade:s104-guard"]),
        mut("sort-descending", "canonical sort descending", [(M, "transactions.sort_by(|a, b| a.date.cmp(&b.date));", "transactions.sort_by(|a, b| b.date.cmp(&a.date));")], ["R4:canon:sort"]),
        mut("sort-unstable", "canonical sort unstable", [(M, "transactions.sort_by(|a, b| a.date.cmp(&b.date));", "transactions.sort_unstable_by(|a, b| a.date.cmp(&b.date));")], ["R4:canon:sort"]),
        mut("bnb-label-sale-date", "30-day leg labelled with the sale date", [(BNB, "                results.push(build_bnb_match(\n                    sell_tx,\n                    tx.date,", "                results.push(build_bnb_match(\n                    sell_tx,\n                    sell_tx.date,")], ["R5:BedAndBreakfast:label"]),
        mut("drop-reservation", "same-day reservation ignored", [(BNB, "    available_before_same_day - reserve_now\n}", "    let _ = reserve_now;\n    available_before_same_day\n}")], ["R6:bnb:same-day-reservation"]),
        mut("drop-prior-claims", "earlier claims ignored", [(BNB, "    let available_before_same_day = buy_amount - already_reserved;", "    let _ = already_reserved;\n    let available_before_same_day = buy_amount;")], ["R6:bnb:prior-claims"]),
        mut("pool-before-sells", "pooling before the day's disposals", [(M, """            // Process all sells (same-day, B&B, then S104)
            for (offset, tx) in transactions[i..day_end].iter().enumerate() {
                if matches!(tx.operation, Operation::Sell { .. }) {
                    let idx = i + offset;
                    self.process_sell(
                        tx,
                        idx,
                        &transactions,
                        &cost_offsets,
                        &mut future_consumption,
                        &mut same_day_reservations,
                    )?;
                }
            }

            // Move remaining buys to S104 pool
            for tx in &transactions[i..day_end] {
                if matches!(tx.operation, Operation::Buy { .. }) {
                    self.move_buy_to_pool(tx)?;
                }
            }
""", """            // Move remaining buys to S104 pool
            for tx in &transactions[i..day_end] {
                if matches!(tx.operation, Operation::Buy { .. }) {
                    self.move_buy_to_pool(tx)?;
                }
            }

            // Process all sells (same-day, B&B, then S104)
            for (offset, tx) in transactions[i..day_end].iter().enumerate() {
                if matches!(tx.operation, Operation::Sell { .. }) {
                    let idx = i + offset;
                    self.process_sell(
                        tx,
                        idx,
                        &transactions,
                        &cost_offsets,
                        &mut future_consumption,
                        &mut same_day_reservations,
                    )?;
                }
            }
""")], ["R2:dayloop"]),
        mut("neutral-window-spelling", "same window, other spelling", [(BNB, "if days_diff <= 0 {", "if days_diff < 1 {"), (BNB, "if days_diff > BNB_WINDOW_DAYS {", "if days_diff >= BNB_WINDOW_DAYS + 1 {")], neutral=True),
        mut("neutral-rename-helper", "rename a private helper", [(BNB, "fn apply_split_ratio_effect(", "fn scale_ratio("), (BNB, "apply_split_ratio_effect(&mut cumulative_ratio_effect, tx);", "scale_ratio(&mut cumulative_ratio_effect, tx);")], neutral=True),
    ],
    "C02": [
        mut("dedup-lines", "identical adjacent lines collapsed before matching", [(M, "        transactions.sort_by(|a, b| a.date.cmp(&b.date));\n", "        transactions.sort_by(|a, b| a.date.cmp(&b.date));\n        transactions.dedup();\n")], ["R10:"]),
        mut("available-drops-reserved", "availability ignores reserved", [(LED, "self.original_amount - self.consumed - self.reserved - self.in_pool", "self.original_amount - self.consumed - self.in_pool")], ["R1:available:reserved"]),
        mut("s104-match-remaining", "Match.quantity = whole remaining", [(S104, "            quantity: matched_qty,\n            allowable_cost: cost,", "            quantity: total_sell_amount,\n            allowable_cost: cost,")], ["R3:Section104"]),
        mut("sameday-consume-other", "lots debited by sale amount, not matched", [(SD, "let cost = ledger.consume_shares_on_date(sell_tx.date, matched_qty);", "let cost = ledger.consume_shares_on_date(sell_tx.date, *sell_amount);")], ["R3:SameDay:debit"]),
        mut("bnb-claim-unscaled", "future claim not rescaled by split ratio", [(BNB, "reserve_future_buy_consumption(future_consumption, idx, matched_qty_at_buy_time);", "reserve_future_buy_consumption(future_consumption, idx, matched_qty_at_sell_time);")], ["R3:BedAndBreakfast:claim"]),
        mut("no-claim-guard", "claims may exceed the purchase", [(M, "                    if reserved > *amount {", "                    if reserved > *amount + *amount {")], ["R4:add_acquisition:guard"]),
        mut("ok-with-remainder", "cascade returns Ok with shares unmatched", [(M, "        if remaining > Decimal::ZERO {\n            if remaining == *amount {", "        if remaining > *amount {\n            if remaining == *amount {")], ["R5:cascade:ok-exit"]),
        mut("pool-writes-elsewhere", "same-day rule also debits the pool", [(SD, "        *remaining -= matched_qty;\n    }", "        *remaining -= matched_qty;\n        if let Some(p) = matcher.get_pool_mut(&sell_tx.ticker) {\n            p.quantity -= matched_qty;\n        }\n    }")], ["R2:pool.quantity"]),
        mut("pooling-two-quantities", "pool gains more than the lots lose", [(M, "                pool.quantity += remaining;\n", "                pool.quantity += remaining + remaining;\n")], ["R3:pooling:one-quantity"]),
        mut("neutral-temp", "introduce a temporary", [(S104, "    pool.quantity -= matched_qty;", "    let debit = matched_qty;\n    pool.quantity -= debit;")], neutral=True),
        mut("neutral-a-plus-neg-b", "a - b as a + (-b)", [(LED, "self.original_amount - self.consumed - self.reserved - self.in_pool", "self.original_amount + (-self.consumed) - self.reserved - self.in_pool")], neutral=True),
    ],
    "C03": [
        mut("s104-cost-not-debited", "pool cost kept", [(S104, "    pool.total_cost -= cost;\n", "")], ["R1:Section104:cost"]),
        mut("s104-cost-other", "pool debited by a different amount", [(S104, "    pool.total_cost -= cost;", "    pool.total_cost -= cost + cost;")], ["R1:Section104:cost"]),
        mut("bnb-unit-cost-no-fees", "30-day cost ignores purchase fees", [(BNB, "    let total_cost = (buy_amount * buy_price) + buy_fees + cost_offset;", "    let total_cost = (buy_amount * buy_price) + cost_offset;")], ["R2:unit-cost", "R1:BedAndBreakfast:cost"]),
        mut("bnb-offset-wrong-index", "offset of the sale's index", [(BNB, "                    cost_offsets.get(idx).copied().unwrap_or(Decimal::ZERO),", "                    cost_offsets.get(sell_idx).copied().unwrap_or(Decimal::ZERO),")], ["R1:BedAndBreakfast:cost"]),
        mut("lot-offset-wrong-index", "lot gets another line's offset", [(M, "let cost_offset = cost_offsets.get(idx).copied().unwrap_or(Decimal::ZERO);", "let cost_offset = cost_offsets.get(i).copied().unwrap_or(Decimal::ZERO);")], ["R3:add_acquisition:offset"]),
        mut("sameday-cost-recomputed", "same-day cost not the consumed cost", [(SD, "                allowable_cost: cost,", "                allowable_cost: cost + cost,")], ["R1:SameDay:cost"]),
        mut("neutral-extract-unit", "inline unit cost written differently", [(BNB, "    let total_cost = (buy_amount * buy_price) + buy_fees + cost_offset;", "    let total_cost = cost_offset + buy_fees + (buy_price * buy_amount);")], neutral=True),
    ],
    "C04": [
        mut("gain-from-gross", "gain computed from gross proceeds", [(S104, "    let gain_or_loss = proceeds.net_proceeds - cost;", "    let gain_or_loss = proceeds.gross_proceeds - cost;")], ["R1:Section104:gain"]),
        mut("fees-not-apportioned", "full fees on every leg", [(M, "    let fees = sell_fees * proportion;", "    let fees = sell_fees;")], ["R2:"]),
        mut("net-per-leg", "gains netted per leg", [(CALC, "        let net: Decimal = disposal.matches.iter().map(|m| m.gain_or_loss).sum();\n\n        if net > Decimal::ZERO {\n            total_gain += net;\n        } else if net < Decimal::ZERO {\n            total_loss += net.abs();\n        }", "        for m in &disposal.matches {\n            let net = m.gain_or_loss;\n            if net > Decimal::ZERO {\n                total_gain += net;\n            } else if net < Decimal::ZERO {\n                total_loss += net.abs();\n            }\n        }")], ["R3:totals"]),
        mut("exemption-default", "unconfigured year treated as 0", [(CALC, "    let exempt_amount = config.get_exemption(tax_period.start_year())?;\n    let dividends = dividend_aggregates\n        .get(&tax_period.start_year())", "    let exempt_amount = config.get_exemption(tax_period.start_year()).unwrap_or(Decimal::ZERO);\n    let dividends = dividend_aggregates\n        .get(&tax_period.start_year())")], ["R7:"]),
        mut("taxable-no-floor", "taxable gain may go negative", [(MODELS, "        (self.net_gain - annual_exempt_amount).max(Decimal::ZERO)", "        (self.net_gain - annual_exempt_amount).max(-Decimal::ONE)")], ["R4:"]),
        mut("disposal-proceeds-from-gross", "disposal proceeds sums gross", [(CALC, "            let total_proceeds: Decimal = matches\n                .iter()\n                .map(|m| m.proceeds)", "            let total_proceeds: Decimal = matches\n                .iter()\n                .map(|m| m.gross_proceeds)")], ["R5:Disposal.proceeds"]),
        mut("dividend-tax-into-income", "tax added to income", [(CALC, "            entry.tax_paid += tax_paid;", "            entry.income += tax_paid;")], ["R6:dividends"]),
        mut("merge-price-sum", "merged price not divided", [(M, "                        let total_proceeds =\n                            (*current_amount * *current_price) + (next_amount * next_price);\n                        *current_amount += next_amount;\n                        if *current_amount != Decimal::ZERO {\n                            *current_price = total_proceeds / *current_amount;", "                        let total_proceeds =\n                            (*current_amount * *current_price) + (next_amount * next_price);\n                        *current_amount += next_amount;\n                        if *current_amount != Decimal::ZERO {\n                            *current_price = total_proceeds / next_amount;")], ["R8:merge:price"]),
        mut("neutral-net-first", "net_gain via a local", [(CALC, "        net_gain: total_gain - total_loss,\n        exempt_amount,\n        dividend_income: dividends.income,\n        dividend_tax_paid: dividends.tax_paid,\n    })\n}\n\n/// Build summaries", "        net_gain: total_gain + (-total_loss),\n        exempt_amount,\n        dividend_income: dividends.income,\n        dividend_tax_paid: dividends.tax_paid,\n    })\n}\n\n/// Build summaries")], neutral=True),
    ],
    "C05": [
        mut("guard-removed", "holding check loosened to never fire", [(M, "        if *amount > total_held {", "        if *amount > total_held + *amount {")], ["R1:guard"]),
        mut("guard-ignores-pool", "pool not counted", [(M, "        let total_held = ledger_held + pool_held;", "        let total_held = ledger_held;")], ["R1:guard:pool-operand", "R1:guard"]),
        mut("guard-other-date", "lots of all dates counted", [(M, "            .map(|l| l.remaining_for_date(tx.date))", "            .map(|l| l.lots().iter().map(|x| x.available()).sum())")], ["R1:guard:ledger-operand"]),
        mut("guard-after-sameday", "check after same-day matching", [(M, "        let mut remaining = *amount;\n\n        // 1. Same Day matching\n        let same_day_matched =\n            same_day::match_same_day(self, tx, &mut remaining, all_transactions)?;\n        for m in same_day_matched {\n            self.matches.push(m);\n        }\n", "        let mut remaining = *amount;\n"), (M, "        // Pre-cascade holding check: you must hold shares to dispose of them.", "        let mut remaining0 = *amount;\n        let same_day_matched =\n            same_day::match_same_day(self, tx, &mut remaining0, all_transactions)?;\n        for m in same_day_matched {\n            self.matches.push(m);\n        }\n        // Pre-cascade holding check: you must hold shares to dispose of them.")], ["R1:guard-dominates:SameDay", "R1:cascade"]),
        mut("error-without-date", "error omits the date", [(M, "                    \"SELL {} on {} has no prior acquisitions (attempted to dispose {})\",\n                    tx.ticker, tx.date, amount", "                    \"SELL {} has no prior acquisitions (attempted to dispose {} / {})\",\n                    tx.ticker, amount, amount")], ["R4:error-text"]),
        mut("neutral-guard-helper", "holding computation extracted into a helper", [
            (M, """        let ledger_held = self
            .ledgers
            .get(&tx.ticker)
            .map(|l| l.remaining_for_date(tx.date))
            .unwrap_or(Decimal::ZERO);
        let pool_held = self
            .pools
            .get(&tx.ticker)
            .map(|p| p.quantity)
            .unwrap_or(Decimal::ZERO);
""", """        let (ledger_held, pool_held) = self.held_for(tx);
"""),
            (M, "    /// Move remaining shares from a buy to the Section 104 pool.", """    fn held_for(&self, tx: &GbpTransaction) -> (Decimal, Decimal) {
        let in_ledger = self
            .ledgers
            .get(&tx.ticker)
            .map(|l| l.remaining_for_date(tx.date))
            .unwrap_or(Decimal::ZERO);
        let in_pool = self
            .pools
            .get(&tx.ticker)
            .map(|p| p.quantity)
            .unwrap_or(Decimal::ZERO);
        (in_ledger, in_pool)
    }

    /// Move remaining shares from a buy to the Section 104 pool."""),
        ], neutral=True),
        mut("mcp-output-before-calc", "MCP builds a success before the calculation result is checked", [(SERVER, "        let report = self.do_calculate_report(&req.transactions, req.year)?;\n        let response = serde_json::json!({", "        let report = match self.do_calculate_report(&req.transactions, req.year) {\n            Ok(r) => r,\n            Err(_) => return Ok(CallToolResult::success(vec![Content::text(\"{}\".to_string())])),\n        };\n        let response = serde_json::json!({")], ["R2:"]),
    ],
    "C06": [
        mut("join-without-newline", "files joined without a line break", [(MAIN, "    Ok(contents.join(\"\\n\"))", "    Ok(contents.join(\"\"))")], ["R4:cli:join-separator"]),
        mut("group-by-date-only", "legs grouped by date only", [(CALC, "        let key = (m.disposal_date, m.disposal_ticker.clone());\n        disposal_map.entry(key).or_default().push(m);", "        let key = (m.disposal_date, String::new());\n        disposal_map.entry(key).or_default().push(m);")], ["R3:group:key"]),
        mut("no-disposal-sort", "disposals left in hash order", [(CALC, "    crate::sort_by_date_ticker(\n        &mut disposals,\n        |disposal| disposal.date,\n        |disposal| &disposal.ticker,\n    );\n", "")], ["R3:"]),
        mut("sorted-by-all-keys-repaired", "sort by date, ticker, kind (repair of the known finding)", [
            (M, "transactions.sort_by(|a, b| a.date.cmp(&b.date));",
             "transactions.sort_by(|a, b| {\n            a.date\n                .cmp(&b.date)\n                .then_with(|| a.ticker.cmp(&b.ticker))\n                .then_with(|| op_kind(&a.operation).cmp(&op_kind(&b.operation)))\n        });"),
            (M, "impl Default for Matcher {", "fn op_kind(op: &Operation<Decimal>) -> u8 {\n    match op {\n        Operation::Buy { .. } => 0,\n        Operation::Sell { .. } => 1,\n        Operation::Dividend { .. } => 2,\n        Operation::Accumulation { .. } => 3,\n        Operation::CapReturn { .. } => 4,\n        Operation::Split { .. } => 5,\n        Operation::Unsplit { .. } => 6,\n    }\n}\n\nimpl Default for Matcher {"),
        ], neutral=True),
    ],
    "C07": [
        mut("boundary-april-5", "from_date boundary 5 April", [(MODELS, "let tax_year_boundary = NaiveDate::from_ymd_opt(date.year(), 4, 6)", "let tax_year_boundary = NaiveDate::from_ymd_opt(date.year(), 4, 5)")], ["R1:models::TaxPeriod::from_date:boundary"]),
        mut("boundary-le", "6 April counted in the old year", [(MODELS, "        let start_year = if date < tax_year_boundary {", "        let start_year = if date <= tax_year_boundary {")], ["R1:models::TaxPeriod::from_date:boundary"]),
        mut("filter-end-april-6", "year filter ends 6 April", [(CALC, "chrono::NaiveDate::from_ymd_opt(tax_year_start + 1, 4, 5).ok_or(", "chrono::NaiveDate::from_ymd_opt(tax_year_start + 1, 4, 6).ok_or(")], ["R1:calculator::build_tax_year_summary:year-range"]),
        mut("filter-start-exclusive", "6 April excluded from its year", [(CALC, ".filter(|m| m.disposal_date >= start_date && m.disposal_date <= end_date)", ".filter(|m| m.disposal_date > start_date && m.disposal_date <= end_date)")], ["R1:calculator::build_tax_year_summary:year-range"]),
        mut("explain-month-le", "explain tool: whole April in old year", [(SERVER, "let year = if date.month() < 4 || (date.month() == 4 && date.day() < 6) {", "let year = if date.month() <= 4 || (date.month() == 4 && date.day() < 6) {")], ["R1:server::CgtServer::explain_matching"]),
        mut("explain-day-5", "explain tool: boundary day 5", [(SERVER, "(date.month() == 4 && date.day() < 6)", "(date.month() == 4 && date.day() < 5)")], ["R1:server::CgtServer::explain_matching"]),
        mut("range-2200", "upper year bound 2200", [(MODELS, "const MAX_TAX_YEAR: u16 = 2100;", "const MAX_TAX_YEAR: u16 = 2200;")], ["R2:"]),
        mut("ctor-unchecked", "from_date builds TaxPeriod directly", [(MODELS, "        Self::new(start_year)\n    }\n\n    /// Get the start year", "        Ok(Self(start_year))\n    }\n\n    /// Get the start year")], ["R2:"]),
        mut("years-unsorted", "all-years list unsorted", [(CALC, "    summaries.sort_by_key(|s| s.period.start_year());\n", "")], ["R3:"]),
        mut("filter-before-matching", "matcher sees only the requested year", [(CALC, "    let (match_results, pools) = matcher.process(gbp_transactions)?;", "    let (match_results, pools) = matcher.process(\n        gbp_transactions\n            .into_iter()\n            .filter(|t| tax_year_start.is_none_or(|y| TaxPeriod::from_date(t.date).map(|p| i32::from(p.start_year()) == y).unwrap_or(false)))\n            .collect(),\n    )?;")], ["R4:calculate:matcher-input"]),
        mut("neutral-explain-from-date", "explain tool uses TaxPeriod::from_date", [(SERVER, "        let year = if date.month() < 4 || (date.month() == 4 && date.day() < 6) {\n            date.year() - 1\n        } else {\n            date.year()\n        };", "        let year = cgt_core::TaxPeriod::from_date(date)\n            .map(|p| i32::from(p.start_year()))\n            .map_err(|e| McpError::invalid_params(e.to_string(), None))?;")], neutral=True),
    ],
    "C08": [
        mut("folder-entries-conditional", "folder rates applied only when the cache has none for that file yet", [(LOADER, "        })?;\n        cache.extend(entries);\n    }\n", "        })?;\n        if entries.len() > 1 {\n            cache.extend(entries);\n        }\n    }\n")], ["R6:"]),
        mut("fees-use-price", "fees converted from the price field", [(MODELS, "                price: amount_to_gbp(price, date, fx_cache)?,\n                fees: amount_to_gbp(fees, date, fx_cache)?,\n            }),\n            Operation::Sell {", "                price: amount_to_gbp(price, date, fx_cache)?,\n                fees: amount_to_gbp(price, date, fx_cache)?,\n            }),\n            Operation::Sell {")], ["R1:Buy.fees"]),
        mut("year-only-key", "rate looked up for January of the year", [(AMOUNT, ".get(self.currency, date.year(), date.month())", ".get(self.currency, date.year(), 1)")], ["R2:lookup:month"]),
        mut("rate-times", "amount × rate", [(AMOUNT, "        Ok(self.amount / rate_entry.rate_per_gbp)", "        Ok(self.amount * rate_entry.rate_per_gbp)")], ["R3:"]),
        mut("missing-cache-as-gbp", "no cache → amount unchanged", [(MODELS, "    let cache = fx_cache.ok_or(CgtError::MissingFxRate {\n        currency: code.clone(),\n        year: date.year(),\n        month: date.month(),\n    })?;", "    let Some(cache) = fx_cache else {\n        return Ok(amount.amount);\n    };")], ["R5:"]),
        mut("folder-before-bundled", "bundled rates overwrite the folder", [(LOADER, "    // Bundled first\n    let bundled_entries = load_bundled_dir(bundled_dir)?;\n    cache.extend(bundled_entries);\n\n    // Then folder", "    let bundled_entries = load_bundled_dir(bundled_dir)?;\n\n    // Then folder"), (LOADER, "        cache.extend(entries);\n    }\n\n    Ok(cache)\n}", "        cache.extend(entries);\n    }\n    cache.extend(bundled_entries);\n\n    Ok(cache)\n}")], ["R6:"]),
        mut("folder-period-unchecked", "folder files parsed without expected period", [(LOADER, "        let entries = parse_monthly_rates(&file.xml, source, Some(expected)).map_err(|source| {", "        let _ = expected;\n        let entries = parse_monthly_rates(&file.xml, source, None).map_err(|source| {")], ["R6:"]),
        mut("month-unchecked", "period check ignores the month", [(MPARSER, "        && (year != expected_year || month != expected_month)", "        && (year != expected_year)")], ["R7:period:month"]),
        mut("zero-rate-allowed", "rate 0 accepted", [(MPARSER, "        if rate_decimal <= Decimal::ZERO {", "        if rate_decimal < Decimal::ZERO {")], ["R7:rate:positive"]),
        mut("cli-no-cache", "CLI passes no cache", [(MAIN, "let report = calculate(&transactions, *year, Some(&fx_cache), &config)?;", "let _ = &fx_cache;\n            let report = calculate(&transactions, *year, None, &config)?;")], ["R8:"]),
    ],
    "C09": [
        mut("no-ticker-guard", "30-day look-ahead ignores the ticker", [(BNB, "        if tx.ticker != sell_tx.ticker {\n            continue;\n        }\n", "")], ["R2:bnb:ticker-guard"]),
        mut("merge-ignores-ticker", "same-day merge across securities", [(M, "if next.date == current.date && next.ticker == current.ticker {", "if next.date == current.date {")], ["R3:merge:ticker"]),
        mut("json-ticker-raw", "JSON tickers not upper-cased", [(MODELS, "            ticker: raw.ticker.to_uppercase(),", "            ticker: raw.ticker,")], ["R4:"]),
        mut("dsl-ticker-lowercase", "DSL tickers lower-cased", [(PARSER, "        Ok(input.as_str().to_uppercase())", "        Ok(input.as_str().to_lowercase())")], ["R4:"]),
        mut("reservation-scan-all-tickers", "same-day reservation counts other securities' sales", [(BNB, "        .filter(|tx| tx.date == date && tx.ticker == ticker)", "        .filter(|tx| tx.date == date)")], ["R2:"]),
        mut("pool-keyed-by-const", "one pool for all securities", [(M, "            .get(&tx.ticker)\n            .map(|p| p.quantity)", "            .get(\"\")\n            .map(|p| p.quantity)")], ["R1:"]),
    ],
    "C10": [
        mut("split-scales-cost", "split also scales pool cost", [(M, "                    pool.quantity *= *ratio;\n", "                    pool.quantity *= *ratio;\n                    pool.total_cost *= *ratio;\n")], ["R1:split-handler:writes"]),
        mut("unsplit-multiplies", "UNSPLIT multiplies", [(M, "                    pool.quantity /= *ratio;", "                    pool.quantity *= *ratio;")], ["R2:pool handler:Unsplit"]),
        mut("lookahead-unsplit-multiplies", "look-ahead UNSPLIT multiplies", [(BNB, "                *cumulative_ratio_effect /= *ratio;", "                *cumulative_ratio_effect *= *ratio;")], ["R2:30-day ratio accumulator:Unsplit"]),
        mut("bnb-no-rescale", "availability not rescaled to sell-time units", [(BNB, "    let available_at_sell_time = available_at_buy_time / cumulative_ratio_effect;", "    let available_at_sell_time = available_at_buy_time;")], ["R3:bnb:sell-time"]),
        mut("bnb-cost-sell-units", "cost taken for sell-time quantity", [(BNB, "                let cost = matched_buy_cost(\n                    matched_qty_at_buy_time,", "                let cost = matched_buy_cost(\n                    matched_qty_at_sell_time,")], ["R3:bnb:cost-units"]),
    ],
    "C11": [
        mut("accumulation-sign", "accumulation lowers cost", [(M, "                            ledger.apply_cost_adjustment(*total_value);", "                            ledger.apply_cost_adjustment(-*total_value);")], ["R1:accumulation:amount"]),
        mut("capreturn-gross", "capital return ignores fees", [(M, "                        let net_value = *total_value - *fees;", "                        let net_value = *total_value;")], ["R1:capreturn:amount"]),
        mut("capreturn-unguarded", "exceeding return accepted", [(M, "                            if net_value > basis_before {", "                            if net_value > basis_before + net_value {")], ["R2:capreturn:guard"]),
        mut("adjust-after-buys", "same-day buys are adjusted too", [(M, "            // Apply corporate actions for the day (before same-day buys)\n", "            // Add buys for the day\n            for (offset, tx) in transactions[i..day_end].iter().enumerate() {\n                if let Operation::Buy {\n                    amount,\n                    price,\n                    fees,\n                } = &tx.operation\n                {\n                    let idx = i + offset;\n                    let ledger = ledgers.entry(tx.ticker.clone()).or_default();\n                    ledger.add_acquisition(\n                        idx,\n                        tx.date,\n                        *amount,\n                        *price,\n                        *fees,\n                        AcquisitionExtras::new(Decimal::ZERO, Decimal::ZERO),\n                    );\n                }\n            }\n"), (M, "            // Add buys for the day\n            for (offset, tx) in transactions[i..day_end].iter().enumerate() {\n                if let Operation::Buy {\n                    amount,\n                    price,\n                    fees,\n                } = &tx.operation\n                {\n                    let idx = i + offset;\n                    let ledger = ledgers.entry(tx.ticker.clone()).or_default();\n                    ledger.add_acquisition(\n                        idx,\n                        tx.date,\n                        *amount,\n                        *price,\n                        *fees,\n                        AcquisitionExtras::new(Decimal::ZERO, Decimal::ZERO),\n                    );\n                }\n            }\n\n            // Process sells for the day using Same Day then S104 (no B&B)", "            // Process sells for the day using Same Day then S104 (no B&B)")], ["R3:prepass:order"]),
        mut("dividend-touches-pool", "cash dividend reduces pool cost", [(M, "            Operation::Buy { .. }\n            | Operation::Sell { .. }\n            | Operation::Dividend { .. }\n            | Operation::Accumulation { .. }\n            | Operation::CapReturn { .. } => {}", "            Operation::Dividend { total_value, .. } => {\n                if let Some(pool) = self.pools.get_mut(&tx.ticker) {\n                    pool.total_cost -= *total_value;\n                }\n            }\n            Operation::Buy { .. }\n            | Operation::Sell { .. }\n            | Operation::Accumulation { .. }\n            | Operation::CapReturn { .. } => {}")], ["R5:"]),
        mut("offset-written-elsewhere", "consume also changes the offset", [(LED, "    pub fn consume(&mut self, amount: Decimal) {\n        self.consumed += amount;", "    pub fn consume(&mut self, amount: Decimal) {\n        self.cost_offset -= amount;\n        self.consumed += amount;")], ["R4:cost_offset:writers"]),
    ],
    "C12": [
        mut("unstable-canonical-sort", "canonical sort made unstable", [(M, "        transactions.sort_by(|a, b| a.date.cmp(&b.date));\n", "        transactions.sort_unstable_by(|a, b| a.date.cmp(&b.date));\n")], ["R4:"]),
        mut("unbounded-lookahead", "30-day loop has no upper bound", [(BNB, "        if days_diff > BNB_WINDOW_DAYS {\n            break;\n        }\n", "")], ["R1:"]),
        mut("reservation-any-future-date", "reservation counts all later sales", [(BNB, "        .filter(|tx| tx.date == date && tx.ticker == ticker)", "        .filter(|tx| tx.date >= date && tx.ticker == ticker)")], ["R1:"]),
        mut("prepass-into-pooling", "whole-timeline pre-pass result handed to the pooling step", [(M, "                    self.move_buy_to_pool(tx)?;", "                    self.move_buy_to_pool(tx, &cost_offsets)?;"), (M, "    fn move_buy_to_pool(&mut self, tx: &GbpTransaction) -> Result<(), CgtError> {", "    fn move_buy_to_pool(&mut self, tx: &GbpTransaction, later: &[Decimal]) -> Result<(), CgtError> {\n        if later.iter().any(|o| *o > Decimal::ZERO) {\n            return Ok(());\n        }")], ["R2:prepass:uses"]),
        mut("offsets-into-quantity", "pre-pass offsets limit the quantity", [(BNB, "                if available_at_buy_time <= Decimal::ZERO {\n                    continue;\n                }", "                if available_at_buy_time <= cost_offsets.get(idx).copied().unwrap_or(Decimal::ZERO) {\n                    continue;\n                }")], ["R1:", "R2:"]),
    ],
    "C13": [
        mut("parse-trimmed-input", "parse_file trims the text before parsing (error positions shift)", [(PARSER, "    let inputs = CgtParser::parse(Rule::transaction_list, input)\n", "    let input = input.trim();\n    let inputs = CgtParser::parse(Rule::transaction_list, input)\n")], ["R7:"]),
        mut("comment-not-silent", "COMMENT produces a token again", [(PEST, "COMMENT = _{", "COMMENT = {")], ["R1:"]),
        mut("keyword-case-sensitive", "FEES keyword case-sensitive", [(PEST, "fees = { ^\"FEES\" ~ money }", "fees = { \"FEES\" ~ money }")], ["R3:fees"]),
        mut("no-final-line", "final line needs a newline", [(PEST, "transaction_list = { SOI ~ (line ~ NEWLINE)* ~ line? ~ EOI }", "transaction_list = { SOI ~ (line ~ NEWLINE)* ~ EOI }")], ["R4:"]),
        mut("cr-before-crlf", "CR tried before CRLF", [(PEST, "NEWLINE = _{ \"\\r\\n\" | \"\\n\" | \"\\r\" }", "NEWLINE = _{ \"\\r\" | \"\\r\\n\" | \"\\n\" }")], ["R4:NEWLINE:order"]),
        mut("tax-not-excluded", "TAX not in the currency look-ahead", [(PEST, "!(^\"TAX\" | ^\"BUY\" | ^\"FEES\" | ^\"TOTAL\" | ^\"RATIO\" | ^\"SELL\")", "!(^\"BUY\" | ^\"FEES\" | ^\"TOTAL\" | ^\"RATIO\" | ^\"SELL\")")], ["R5:follow:TAX"]),
        mut("usd-excluded", "USD excluded from currency codes", [(PEST, "!(^\"TAX\" | ^\"BUY\"", "!(^\"USD\" | ^\"TAX\" | ^\"BUY\"")], ["R5:excluded-iso:USD"]),
        mut("default-currency-usd", "omitted currency means USD", [(PARSER, "[decimal(amount)] => CurrencyAmount::new(amount, Currency::GBP),", "[decimal(amount)] => CurrencyAmount::new(amount, Currency::USD),")], ["R6:money"]),
        mut("list-skips-transactions", "list consumer ignores transactions", [(PARSER, "                Rule::transaction => transactions.push(Self::transaction(child)?),\n                Rule::COMMENT | Rule::EOI => {}", "                Rule::COMMENT | Rule::EOI | Rule::transaction => {}")], ["R2:"]),
        mut("arm-missing", "cmd_buy without fees arm removed", [(PARSER, "            [ticker(t), quantity(q), price(p)] => {\n                (t, Operation::Buy {\n                    amount: q,\n                    price: p,\n                    fees: CurrencyAmount::new(Decimal::ZERO, Currency::GBP),\n                })\n            },\n", "")], ["R1:cmd_buy"]),
    ],
    "C14": [
        mut("decimal-length-refusal", "decimal tokens longer than 20 characters refused before conversion", [(PARSER, "    Decimal::from_str(s).map_err(|_| node.error(format!(\"Invalid decimal: {s}\")))", "    if s.len() > 20 {\n        return Err(node.error(format!(\"Number too long: {s}\")));\n    }\n    Decimal::from_str(s).map_err(|_| node.error(format!(\"Invalid decimal: {s}\")))")], ["R6:"]),
        mut("writer-fee-keyword", "writer emits FEE", [(DSL, "                line.push_str(&format!(\" FEES {}\", format_amount(fees)));\n            }\n            line\n        }\n        Operation::Sell {", "                line.push_str(&format!(\" FEE {}\", format_amount(fees)));\n            }\n            line\n        }\n        Operation::Sell {")], ["R1:Buy:derivable"]),
        mut("writer-swaps-fields", "writer prints price where quantity goes", [(DSL, "                \"{} SELL {} {} @ {}\",\n                date,\n                tx.ticker,\n                amount,\n                format_amount(price)", "                \"{} SELL {} {} @ {}\",\n                date,\n                tx.ticker,\n                price.amount,\n                format_amount(price)")], ["R1:Sell:quantity-field"]),
        mut("writer-rounds", "writer prints 2 decimals", [(DSL, "    format!(\"{} {}\", amount.amount, amount.code())", "    format!(\"{:.2} {}\", amount.amount, amount.code())")], ["R1:"]),
        mut("writer-wrong-variant", "UNSPLIT written as SPLIT", [(DSL, "format!(\"{} UNSPLIT {} RATIO {}\", date, tx.ticker, ratio)", "format!(\"{} SPLIT {} RATIO {}\", date, tx.ticker, ratio)")], ["R1:Unsplit:variant-mismatch"]),
        mut("writer-guard-other-field", "TAX clause guarded by the total", [(DSL, "            if !tax_paid.amount.is_zero() {\n                line.push_str(&format!(\" TAX {}\", format_amount(tax_paid)));\n            }\n            line\n        }\n        Operation::Accumulation {", "            if !total_value.amount.is_zero() {\n                line.push_str(&format!(\" TAX {}\", format_amount(tax_paid)));\n            }\n            line\n        }\n        Operation::Accumulation {")], ["R1:Dividend:optional-guard"]),
        mut("json-key-renamed", "serializer writes `value`", [(AMOUNT, "        state.serialize_field(\"amount\", &self.amount)?;", "        state.serialize_field(\"value\", &self.amount)?;")], ["R2:CurrencyAmount"]),
        mut("tag-remapped", "CAPRETURN renamed on output only", [(MODELS, "    #[serde(rename = \"CAPRETURN\")]\n    CapReturn {", "    #[serde(rename = \"CAP_RETURN\")]\n    CapReturn {")], ["R2:"]),
        mut("sniffer-brace", "JSON detected by '{'", [(SERVER, "        if trimmed.starts_with('[') {", "        if trimmed.starts_with('{') {")], ["R3:parse_input:routing"]),
    ],
    "C15": [
        mut("unwrap-in-lib", "unwrap in the calculator", [(CALC, "        let dividends = dividend_aggregates.get(&year).copied().unwrap_or_default();", "        let dividends = dividend_aggregates.get(&year).copied().unwrap();")], ["R1:"]),
        mut("unguarded-index", "day loop reads one past", [(M, "            let current_date = transactions[i].date;\n\n            // Find all transactions on this date", "            let current_date = transactions[i + 1].date;\n\n            // Find all transactions on this date")], ["R2:"]),
        mut("loop-guard-removed", "inner scan loses its bound", [(M, "            while day_end < transactions.len() && transactions[day_end].date == current_date {\n                day_end += 1;\n            }\n\n            // Add buys for the day (apply cost offsets and future reservations)", "            while transactions[day_end].date == current_date {\n                day_end += 1;\n            }\n\n            // Add buys for the day (apply cost offsets and future reservations)")], ["R2:"]),
        mut("print-before-calculate", "CLI prints a banner before calculating", [(MAIN, "            let config = cgt_core::Config::load_with_overrides()?;\n            let report = calculate(", "            println!(\"Calculating...\");\n            let config = cgt_core::Config::load_with_overrides()?;\n            let report = calculate(")], ["R4:main:fallible-after"]),
        mut("offsets-index-shifted", "pre-pass writes the offset of the neighbouring line", [(M, "offsets[lot.transaction_idx]", "offsets[lot.transaction_idx + 1]")], ["R2:"]),
        mut("day-slice-one-past", "the day's slice ends one line too far", [(M, "            for (offset, tx) in transactions[i..day_end].iter().enumerate() {", "            for (offset, tx) in transactions[i..day_end + 1].iter().enumerate() {")], ["R2:"]),
        mut("needle-offset-mismatch", "slice skips more bytes than the needle that was found", [("crates/cgt-converter/src/schwab/transactions.rs", "        let actual_date = &clean_date[as_of_pos + 7..]; // Skip \" as of \" (7 chars)", "        let actual_date = &clean_date[as_of_pos + 8..]; // Skip \" as of \" (7 chars)")], ["R2:"]),
        mut("len-test-other-container", "first file indexed under a length test on the transactions", [(MAIN, "                            let default_path = if files.len() == 1 {", "                            let default_path = if transactions.len() == 1 {")], ["R2:"]),
        mut("pdf-no-exists-test", "default PDF path overwritten", [(MAIN, "                    if is_default && output_path.exists() {", "                    if is_default && false {")], ["R4:main:pdf-overwrite-guard"]),
        mut("validator-arm-dropped", "validator ignores negative fees", [(VALID, "    if fields.fees.amount < Decimal::ZERO {", "    if fields.fees.amount < Decimal::MIN {")], ["R5:validate"]),
        mut("validator-zero-qty-ok", "validator accepts zero quantity", [(VALID, "    if fields.amount == Decimal::ZERO {", "    if fields.amount == Decimal::ONE {")], ["R5:validate"]),
        mut("split-zero-guard-removed", "SPLIT arm of the look-ahead accumulator loses its zero guard", [(BNB, "            if *ratio != Decimal::ZERO {\n                *cumulative_ratio_effect *= *ratio;\n            }", "            *cumulative_ratio_effect *= *ratio;")], ["R6:"]),
        mut("unsplit-guard-sign-only", "UNSPLIT guard tests only the sign bit", [(BNB, "            if *ratio != Decimal::ZERO {\n                *cumulative_ratio_effect /= *ratio;", "            if ratio.is_sign_positive() {\n                *cumulative_ratio_effect /= *ratio;")], ["R6:"]),
        mut("proceeds-guard-removed", "compute_proceeds divides by an untested sale quantity", [(M, "    if sell_qty == Decimal::ZERO {\n        return ProportionalProceeds {", "    if sell_qty == Decimal::ONE {\n        return ProportionalProceeds {")], ["R6:"]),
        mut("days-nonconst", "look-back by an input-derived number of days", [(AWARDS, "        for days_back in 1..=7 {", "        for days_back in 1..=(date.to_string().len() as i64) {")], ["R1:", "R2:"]),
    ],
    "C16": [
        mut("raw-config-hashmap", "override keys parsed out of a HashMap again", [(CONFIG, "    exemptions: BTreeMap<String, Decimal>,", "    exemptions: HashMap<String, Decimal>,")], ["R1:"]),
        mut("hashmap-years", "tax years iterated in hash order with early exit", [(CALC, "    let mut matches_by_year: BTreeMap<u16, Vec<MatchResult>> = BTreeMap::new();", "    let mut matches_by_year: HashMap<u16, Vec<MatchResult>> = HashMap::new();")], ["R1:calculator::build_all_tax_year_summaries"]),
        mut("holdings-unsorted", "holdings in hash order", [(CALC, "    holdings.sort_by(|a, b| a.ticker.cmp(&b.ticker));\n", "")], ["R1:calculator::calculate", "R4:holdings"]),
        mut("holdings-descending", "holdings sorted descending", [(CALC, "    holdings.sort_by(|a, b| a.ticker.cmp(&b.ticker));", "    holdings.sort_by(|a, b| b.ticker.cmp(&a.ticker));")], ["R3:calculator::calculate"]),
        mut("comparator-ticker-first", "shared comparator: ticker before date", [("crates/cgt-core/src/ordering.rs", "    left_date\n        .cmp(&right_date)\n        .then_with(|| left_ticker.cmp(right_ticker))", "    left_ticker\n        .cmp(right_ticker)\n        .then_with(|| left_date.cmp(&right_date))")], ["R3:"]),
        mut("clock-in-plain", "timestamp in the text report", [(PLAIN, "    let _ = writeln!(out, \"# SUMMARY\\n\");", "    let _ = writeln!(out, \"# SUMMARY {:?}\\n\", std::time::SystemTime::now());")], ["R2:"]),
        mut("echo-unsorted", "transaction echo in input order", [(PLAIN, "    sort_by_date_ticker(\n        &mut txns,\n        |transaction| transaction.date,\n        |transaction| &transaction.ticker,\n    );\n", "")], ["R4:"]),
        mut("neutral-holdings-sort-by-key", "holdings sorted with sort_by_key", [(CALC, "    holdings.sort_by(|a, b| a.ticker.cmp(&b.ticker));", "    holdings.sort_by_key(|h| h.ticker.clone());")], neutral=True),
        mut("neutral-btreemap-disposals", "BTreeMap for the disposal grouping", [(CALC, "    let mut disposal_map: HashMap<(NaiveDate, String), Vec<MatchResult>> = HashMap::new();", "    let mut disposal_map: BTreeMap<(NaiveDate, String), Vec<MatchResult>> = BTreeMap::new();")], neutral=True),
    ],
    "C17": [
        mut("json-half-even", "JSON money rounds half-even again", [(MODELS, "        let rounded = value.round_dp_with_strategy(2, RoundingStrategy::MidpointAwayFromZero);", "        let rounded = value.round_dp(2);")], ["R1:"]),
        mut("gbp-half-even", "format_gbp rounds half-even", [(FORMAT, "    let rounded = value.round_dp_with_strategy(minor_units, RoundingStrategy::MidpointAwayFromZero);", "    let rounded = value.round_dp_with_strategy(minor_units, RoundingStrategy::MidpointNearestEven);")], ["R1:"]),
        mut("plain-raw-decimal", "text report prints a raw Decimal", [(PLAIN, "    let _ = writeln!(out, \"   Cost: {}\", format_gbp(total_cost));", "    let _ = writeln!(out, \"   Cost: {}\", total_cost);")], ["R3:"]),
        mut("date-format-us", "dates as MM/DD/YYYY", [(FORMAT, "    date.format(\"%d/%m/%Y\").to_string()", "    date.format(\"%m/%d/%Y\").to_string()")], ["R4:"]),
        mut("tax-year-4-digits", "tax year end printed in full", [(MODELS, "        let end_short = (self.0 + 1) % 100;\n        write!(f, \"{}/{:02}\", self.0, end_short)", "        let end_short = self.0 + 1;\n        write!(f, \"{}/{:02}\", self.0, end_short)")], ["R4:TaxPeriod:format"]),
        mut("pdf-proceeds-from-gross", "PDF data packs gross proceeds under `proceeds`", [(PDFLIB, "    dict.insert(\"proceeds\".into(), decimal_to_value(disposal.proceeds)?);", "    dict.insert(\"proceeds\".into(), decimal_to_value(disposal.gross_proceeds)?);")], ["R9:"]),
        mut("tpl-trim-both-ends", "template strips zeros at both ends of the fraction", [(TYP, "frac.trim(\"0\", at: end)", "frac.trim(\"0\")")], ["R11:"]),
        mut("tpl-qty-4-places", "template rounds quantities to 4 places", [(TYP, "fmt-fixed(value, digits: 6)", "fmt-fixed(value, digits: 4)")], ["R11:quantity"]),
        mut("tpl-date-us", "template writes MM/DD/YYYY", [(TYP, "pad2(d.day) + \"/\" + pad2(d.month)", "pad2(d.month) + \"/\" + pad2(d.day)")], ["R11:date"]),
        mut("tpl-raw-gain", "summary gain rendered with str()", [(TYP, "      fmt-money(row.total_gain),", "      str(row.total_gain),")], ["R10:"]),
        mut("tpl-money-of-quantity", "holdings column formats the share count as money", [(TYP, "fmt-money(row.total_cost / row.quantity)", "fmt-money(row.quantity)")], ["R10:"]),
        mut("tpl-raw-quantity", "disposal quantity interpolated raw", [(TYP, "#fmt-qty(disposal.quantity) shares", "#disposal.quantity shares")], ["R10:"]),
        mut("tpl-sign-le", "minus sign for zero", [(TYP, "  let sign = if value < 0 { sym.minus } else { \"\" }", "  let sign = if value <= 0 { sym.minus } else { \"\" }")], ["R11:money:sign"]),
        mut("tpl-currency-no-abs", "foreign amounts: sign written and kept in the digits", [(TYP, "  let abs = calc.abs(amount)", "  let abs = amount")], ["R11:currency"]),
        mut("tpl-floor", "template truncates instead of rounding", [(TYP, "  let rounded = calc.round(value, digits: digits)", "  let rounded = calc.floor(value * calc.pow(10, digits)) / calc.pow(10, digits)")], ["R1"]),
        mut("tpl-group-4", "digit groups of four", [(TYP, "step: 3", "step: 4")], ["R11:group"]),
        mut("neutral-tpl-inline-abs", "template: abs inlined into the rounding call", [(TYP, "  let abs = calc.abs(value)\n  let fixed = fmt-fixed(abs, digits: 2)", "  let fixed = fmt-fixed(calc.abs(value), digits: 2)")], neutral=True),
        mut("neutral-tpl-rename", "template: zero-trimming helper renamed", [(TYP, "#let trim-zeros(text) =", "#let strip-trailing-zeros(text) ="), (TYP, "#let fmt-qty(value) = trim-zeros(fmt-fixed(value, digits: 6))", "#let fmt-qty(value) = strip-trailing-zeros(fmt-fixed(value, digits: 6))")], neutral=True),
        mut("mcp-float", "MCP explain converts to f64", [(SERVER, "                    quantity: m.quantity.to_string(),\n                    allowable_cost: m.allowable_cost.to_string(),", "                    quantity: m.quantity.to_string(),\n                    allowable_cost: rust_decimal::prelude::ToPrimitive::to_f64(&m.allowable_cost).unwrap_or(0.0).to_string(),")], ["R2:"]),
    ],
    "C18": [
        mut("fees-clause-nonzero", "FEES clause printed for any non-zero amount", [(OUTPUT, "        && exp > Decimal::ZERO\n", "        && !exp.is_zero()\n")], ["R3:"]),
        mut("comment-unsanitised", "comment formatter interpolates raw text", [(OUTPUT, "    let single_line = text.replace(['\\n', '\\r'], \" \");\n    format!(\"# {}\", single_line)", "    format!(\"# {}\", text)")], ["R4:"]),
        mut("sanitise-only-lf", "only \\n replaced", [(OUTPUT, "text.replace(['\\n', '\\r'], \" \")", "text.replace('\\n', \" \")")], ["R4:"]),
        mut("wildcard-arm", "NonCgt arm becomes a wildcard", [(SCHWAB, "                SchwabTransaction::NonCgt => {\n                    skipped_count += 1;\n                }", "                _ => {\n                    skipped_count += 1;\n                }")], ["R1:"]),
        mut("sell-price-from-quantity", "SELL price copied from quantity", [(SCHWAB, "                    cgt_transactions.push(CgtTransaction::Sell {\n                        date: common.date,\n                        symbol: common.symbol,\n                        quantity,\n                        price,", "                    cgt_transactions.push(CgtTransaction::Sell {\n                        date: common.date,\n                        symbol: common.symbol,\n                        quantity,\n                        price: quantity,")], ["R2:Sell:price"]),
        mut("buy-conditional", "zero-fee buys dropped", [(SCHWAB, "                    cgt_transactions.push(CgtTransaction::Buy {\n                        date: common.date,\n                        symbol: common.symbol,\n                        quantity,\n                        price,\n                        expenses: fees_commissions.unwrap_or(Decimal::ZERO),\n                        comment: None,\n                    });", "                    if fees_commissions.is_some() {\n                    cgt_transactions.push(CgtTransaction::Buy {\n                        date: common.date,\n                        symbol: common.symbol,\n                        quantity,\n                        price,\n                        expenses: fees_commissions.unwrap_or(Decimal::ZERO),\n                        comment: None,\n                    });\n                    }")], ["R2:Buy:one-row"]),
        mut("trade-keyword", "trade lines use AT instead of @", [(OUTPUT, "        \"{} {} {} {} @ {} {}\",", "        \"{} {} {} {} AT {} {}\",")], ["R3:"]),
        mut("raw-line-pushed", "raw description pushed as a line", [(SCHWAB, "                CgtTransaction::Comment { comment } => {\n                    output_lines.push(output::format_comment(comment));", "                CgtTransaction::Comment { comment } => {\n                    output_lines.push(comment.clone());")], ["R3:convert:raw-line"]),
        mut("unstable-sort", "rows sorted unstably", [(SCHWAB, "        sorted_txns.sort_by_key(|txn| match txn {", "        sorted_txns.sort_unstable_by_key(|txn| match txn {")], ["R5:"]),
        mut("cancel-ignores-price", "cancellation matches without the price", [(SCHWAB, "                    && *q == cancel.quantity && *p == cancel.price", "                    && *q == cancel.quantity && *p == *p")], ["R2:"]),
        mut("neutral-sanitise-filter", "sanitiser written as a chars() filter", [(OUTPUT, "    let single_line = text.replace(['\\n', '\\r'], \" \");", "    let single_line: String = text.chars().filter(|c| *c != '\\n' && *c != '\\r').collect();")], neutral=True),
    ],
    "C19": [
        mut("window-8", "look-back of 8 days", [(AWARDS, "        for days_back in 1..=7 {", "        for days_back in 1..=8 {")], ["R1:lookup:window-range"]),
        mut("window-from-0-to-6", "exclusive range 1..7", [(AWARDS, "        for days_back in 1..=7 {", "        for days_back in 1..7 {")], ["R1:lookup:window-range"]),
        mut("look-forward", "probe dates after the deposit", [(AWARDS, "date.checked_sub_signed(chrono::Duration::days(days_back))", "date.checked_add_signed(chrono::Duration::days(days_back))")], ["R1:lookup:probe-date"]),
        mut("farthest-first", "farthest date first", [(AWARDS, "        for days_back in 1..=7 {", "        for days_back in (1..=7).rev() {")], ["R1:lookup:direction"]),
        mut("query-not-uppercased", "queried symbol not upper-cased", [(AWARDS, "        let symbol_upper = symbol.to_uppercase();", "        let symbol_upper = symbol.to_string();")], ["R1:lookup:query-symbol-case"]),
        mut("default-fmv", "missing FMV becomes zero", [(AWARDS, "        Err(ConvertError::MissingFairMarketValue {\n            date: date.to_string(),\n            symbol: symbol.to_string(),\n        })\n    }\n}", "        Ok(AwardLookup {\n            fmv: Decimal::ZERO,\n            vest_date: *date,\n        })\n    }\n}")], ["R1:lookup:fallthrough"]),
        mut("fallback-first", "fallback price tested first", [(AWARDS, "    if let Some(vest_fmv_str) = details.vest_fair_market_value.as_deref() {", "    if let (Some(vest_fmv_str), None) = (details.vest_fair_market_value.as_deref(), details.fair_market_value_price.as_deref()) {")], ["R2:"]),
        mut("fallback-unconditional", "fallback always inserted", [(AWARDS, "        if !inserted && let Some((date, fmv)) = fallback {", "        if let Some((date, fmv)) = fallback {")], ["R2:build:fallback-guard"]),
        mut("window-hit-dated-deposit", "look-back hit dated at the deposit", [(AWARDS, "                return Ok(AwardLookup {\n                    fmv: *fmv,\n                    vest_date: earlier_date,\n                });", "                return Ok(AwardLookup {\n                    fmv: *fmv,\n                    vest_date: *date,\n                });")], ["R1:lookup:window:vest-date"]),
        mut("rsu-no-awards-default", "RSU without awards priced at zero", [(SCHWAB, "                        return Err(ConvertError::MissingFairMarketValue {\n                            date: common.date.to_string(),\n                            symbol: common.symbol.clone(),\n                        });", "                        AwardLookup { fmv: Decimal::ZERO, vest_date: common.date }")], ["R3:rsu:no-awards"]),
    ],
    "C20": [
        mut("mutex-field", "server keeps a request counter", [(SERVER, "pub struct CgtServer {\n    fx_cache: Option<FxCache>,", "pub struct CgtServer {\n    hits: std::sync::Arc<std::sync::Mutex<u64>>,\n    fx_cache: Option<FxCache>,"), (SERVER, "        Ok(Self {\n            fx_cache: Some(fx_cache),", "        Ok(Self {\n            hits: std::sync::Arc::new(std::sync::Mutex::new(0)),\n            fx_cache: Some(fx_cache),")], ["R1:server"]),
        mut("fs-in-tool", "tool reads a file", [(SERVER, "        let transactions = self.parse_input(&req.transactions)?;\n        let dsl = cgt_core::dsl::transactions_to_dsl(&transactions);", "        let extra = std::fs::read_to_string(\"/tmp/cgt-extra\").unwrap_or_default();\n        let transactions = self.parse_input(&(req.transactions.clone() + &extra))?;\n        let dsl = cgt_core::dsl::transactions_to_dsl(&transactions);")], ["R1:effect"]),
        mut("unwrap-in-tool", "tool unwraps serialization", [(SERVER, "        let transactions = self.parse_input(&req.transactions)?;\n        let json = serde_json::to_string_pretty(&transactions).map_err(|e| {\n            McpError::internal_error(format!(\"JSON serialization error: {e}\"), None)\n        })?;", "        let transactions = self.parse_input(&req.transactions)?;\n        let json = serde_json::to_string_pretty(&transactions).unwrap();")], ["R2:"]),
        mut("year-overflow-back", "request year + 1 again", [(SERVER, "                let next_year = i64::from(y) + 1;", "                let next_year = i64::from(y + 1);")], ["R2:"]),
        mut("static-mut-counter", "global mutable counter", [(SERVER, "/// CGT MCP Server that handles tool and resource requests.", "static CALLS: std::sync::atomic::AtomicU64 = std::sync::atomic::AtomicU64::new(0);\n\n/// CGT MCP Server that handles tool and resource requests."), (SERVER, "        let transactions = self.parse_input(&req.transactions)?;\n        let dsl = cgt_core::dsl::transactions_to_dsl(&transactions);", "        CALLS.fetch_add(1, std::sync::atomic::Ordering::SeqCst);\n        let transactions = self.parse_input(&req.transactions)?;\n        let dsl = cgt_core::dsl::transactions_to_dsl(&transactions);")], ["R1:static"]),
        mut("embedded-config", "MCP ignores config overrides", [(SERVER, "        let config = cgt_core::Config::load_with_overrides()\n            .map_err(|e| McpServerError::Service(e.to_string()))?;", "        let config = cgt_core::Config::embedded()\n            .map_err(|e| McpServerError::Service(e.to_string()))?;")], ["R4:"]),
        mut("find-by-date-only", "explain finds disposals by date only", [(SERVER, "                if disposal.date == date && disposal.ticker.eq_ignore_ascii_case(ticker) {", "                if disposal.date == date {")], ["R5:"]),
        mut("await-in-tool", "tool yields to the scheduler", [(SERVER, "        let transactions = self.parse_input(&req.transactions)?;\n        let dsl = cgt_core::dsl::transactions_to_dsl(&transactions);", "        tokio::task::yield_now().await;\n        let transactions = self.parse_input(&req.transactions)?;\n        let dsl = cgt_core::dsl::transactions_to_dsl(&transactions);")], ["R3:"]),
    ],
}

# ----------------------------------------------------------------------------- refactored bases
# The stored behaviour-preserving refactorings (seeded/neutral-r*) serve twice in the thorough tier: applied alone they
# must stay silent (a generalised rule must not alarm on them), and with one break on top they must be detected (the
# generalised rule must not have become vacuous on the new spelling).

def on(base, m):
    m = dict(m)
    m["base"] = base
    return m


def refactor(base, props):
    return {p: on(base, mut(base, f"behaviour-preserving refactoring {base} alone", [], neutral=True)) for p in props}


_NEUTRAL_BASES = {
    "neutral-r2": ["C01", "C02", "C03", "C05", "C06", "C10", "C12"],
    "neutral-r3": ["C03", "C05", "C06"],
    "neutral-r4": ["C04", "C06", "C07", "C08", "C16", "C17"],
    "neutral-r5": ["C18", "C19"],
    "neutral-r6": ["C05", "C06", "C07", "C08", "C15", "C20"],
    "neutral-r7": ["C13", "C14", "C15"],
    "neutral-r8": ["C08", "C17"],
    "neutral-r1": ["C01", "C02", "C06", "C11", "C12"],
    "neutral-r9": ["C01", "C02", "C03", "C04", "C05", "C06", "C09", "C10", "C11", "C12"],
    "neutral-r10": ["C04", "C07", "C16"],
    "neutral-r11": ["C16", "C18", "C19"],
    "neutral-r12": ["C15", "C16", "C17"],
    "neutral-r13": ["C05", "C14", "C20"],
    "neutral-r14": ["C03", "C08", "C11", "C14", "C15"],
    "neutral-r16": ["C05", "C06", "C08", "C15", "C16", "C18", "C19", "C20"],
    "neutral-r15": ["C01", "C02", "C03", "C04", "C05", "C06", "C09", "C10", "C11", "C12", "C16"],
    "neutral-r17": ["C13", "C14", "C09"],
    "neutral-r18": ["C04", "C08"],
    "neutral-r19": ["C14", "C09", "C15"],
    "neutral-r20": ["C15", "C16", "C17"],
    "neutral-r21": ["C15", "C16", "C18", "C19"],
    "neutral-r22": ["C05", "C06", "C13", "C15"],
    "neutral-r23": ["C07", "C12", "C14", "C17", "C20"],
    "neutral-r25": ["C08", "C15"],
    "neutral-r27": ["C13", "C14"],
    "neutral-r28": ["C05", "C15", "C16", "C17"],
    "neutral-r29": ["C14", "C17", "C20"],
}
for _b, _ps in _NEUTRAL_BASES.items():
    for _p, _m in refactor(_b, _ps).items():
        MUTANTS.setdefault(_p, []).append(_m)

_CROSS = {
    "C10": [on("neutral-r2", mut("r2+split-divides", "pure ratio accumulator divides on SPLIT",
                                 [(BNB, "Operation::Split { ratio } if *ratio != Decimal::ZERO => ratio_so_far * *ratio,",
                                   "Operation::Split { ratio } if *ratio != Decimal::ZERO => ratio_so_far / *ratio,")], ["R2:"]))],
    "C12": [on("neutral-r2", mut("r2+scan-any-date", "loop-form same-date scan loses its date test",
                                 [(BNB, "        if tx.date != date || tx.ticker != ticker {", "        if tx.ticker != ticker {")], ["R1:"]))],
    "C02": [on("neutral-r2", mut("r2+claim-sell-units", "future claim recorded in sell-time units",
                                 [(BNB, "*future_consumption.entry(idx).or_insert(Decimal::ZERO) += matched_qty_at_buy_time;",
                                   "*future_consumption.entry(idx).or_insert(Decimal::ZERO) += matched_qty_at_sell_time;")], ["R3:", "R6:"]))],
    "C03": [on("neutral-r3", mut("r3+cost-weight", "same-day numerator weighted by the lot's full amount",
                                 [(LED, "                holdings.total_cost += available * lot.adjusted_unit_cost();",
                                   "                holdings.total_cost += (available + lot.consumed) * lot.adjusted_unit_cost();")], ["R4:"]))],
    "C06": [on("neutral-r2", mut("r2+scan-first-only", "loop-form same-day total stops at the first sale",
                                 [(BNB, "            total_sold += *amount;\n", "            total_sold += *amount;\n            break;\n")], ["R3:"]))],
    "C01": [on("neutral-r2", mut("r2+other-ticker-ratio", "pure ratio accumulator applied before the ticker test",
                                 [(BNB, "        // Must be same ticker\n        if tx.ticker != sell_tx.ticker {\n            continue;\n        }\n", ""),
                                  (BNB, "            Operation::Buy {", "            Operation::Buy { .. } if tx.ticker != sell_tx.ticker => {}\n            Operation::Buy {")], ["R8:"]))],
    "C07": [on("neutral-r4", mut("r4+range-pattern-2200", "range pattern admits years up to 2200",
                                 [(MODELS, "            MIN_TAX_YEAR..=MAX_TAX_YEAR => Ok(Self(start_year)),", "            MIN_TAX_YEAR..=2200 => Ok(Self(start_year)),")], ["R2:"]))],
    "C08": [on("neutral-r4", mut("r4+convert-wrong-field", "closure-converted fees taken from price",
                                 [(MODELS, "                price: convert(price)?,\n                fees: convert(fees)?,", "                price: convert(price)?,\n                fees: convert(price)?,")], ["R1:"])),
            on("neutral-r6", mut("r6+loader-arms-swapped", "folder given → bundled rates only",
                                 [(MAIN, "        None => Ok(load_default_cache()?),", "        None => Ok(load_cache_with_overrides(Vec::new())?),")], ["R8:"])),
            on("neutral-r8", mut("r8+period-year-only", "period helper compares the year only",
                                 [(MPARSER, "    if found_year == expected_year && found_month == expected_month {", "    if found_year == expected_year {")], ["R7:"]))],
    "C19": [on("neutral-r5", mut("r5+find_map-8-days", "find_map look-back over 1..=8",
                                 [(AWARDS, "(1..=7).find_map(|days_back| {", "(1..=8).find_map(|days_back| {")], ["R1:"])),
            on("neutral-r5", mut("r5+find_map-farthest", "look-back walks the range backwards",
                                 [(AWARDS, "(1..=7).find_map(|days_back| {", "(1..=7).rev().find_map(|days_back| {")], ["R1:"]))],
    "C18": [on("neutral-r5", mut("r5+cancel-ignores-price", "cancellation helper no longer compares the price",
                                 [(SCHWAB, "            && *price == self.price\n", "\n")], ["R2:"]))],
    "C15": [on("neutral-r6", mut("r6+pdf-guard-negated", "overwrite guard tests the explicit path instead of the default",
                                 [(MAIN, "if is_default && output_path.exists()", "if !is_default && output_path.exists()")], ["R4:"])),
            on("neutral-r7", mut("r7+zero-quantity-accepted", "check_quantity loses its zero test",
                                 [(VALID, "    if qty == Decimal::ZERO {", "    if false {")], ["R5:"]))],
    "C14": [on("neutral-r7", mut("r7+clause-guard-sign", "optional clause omitted for negative instead of zero amounts",
                                 [(DSL, "    if value.amount.is_zero() {", "    if value.amount.is_sign_negative() {")], ["R1:"]))],
    "C17": [on("neutral-r8", mut("r8+sign-swapped", "sign string swapped",
                                 [(FORMAT, 'let sign = if rounded.is_sign_negative() { "-" } else { "" };', 'let sign = if rounded.is_sign_negative() { "" } else { "-" };')], ["R4:"]))],
}
_CROSS3 = {
    "C15": [on("neutral-r16", mut("r16+value-default-guard-negated", "overwrite guard tests the explicit path",
                                  [(MAIN, "if is_default && output_path.exists()", "if !is_default && output_path.exists()")], ["R4:"]))],
    "C18": [on("neutral-r16", mut("r16+recorder-drops-emits", "recorder pushes an emitted row only when it is not a sell",
                                  [(SCHWAB, "            RowOutcome::Emit(txn) => self.emitted.push(txn),",
                                    "            RowOutcome::Emit(txn) => {\n                if !matches!(txn, CgtTransaction::Sell { .. }) {\n                    self.emitted.push(txn);\n                }\n            }")], ["R2:Sell:one-row"])),
            on("neutral-r16", mut("r16+sell-price-from-quantity", "sell handler copies the quantity into the price",
                                  [(SCHWAB, "    RowOutcome::Emit(CgtTransaction::Sell {\n        date: common.date,\n        symbol: common.symbol,\n        quantity,\n        price,",
                                    "    RowOutcome::Emit(CgtTransaction::Sell {\n        date: common.date,\n        symbol: common.symbol,\n        quantity,\n        price: quantity,")], ["R2:Sell:price"]))],
}
_CROSS4 = {
    "C01": [on("neutral-r15", mut("r15+take_while-29", "pipeline window stops one day early",
                                  [(BNB, ".take_while(|(_, _, days_diff)| *days_diff <= BNB_WINDOW_DAYS)", ".take_while(|(_, _, days_diff)| *days_diff < BNB_WINDOW_DAYS)")], ["R3:window:interval"]))],
    "C09": [on("neutral-r15", mut("r15+no-ticker-filter", "pipeline loses its ticker filter",
                                  [(BNB, "        .filter(|(_, tx)| tx.ticker == sell_tx.ticker)\n", "")], ["R2:bnb:ticker-guard"]))],
    "C02": [on("neutral-r15", mut("r15+claim-overwritten", "helper overwrites earlier claims on the acquisition",
                                  [(BNB, "*self.future_consumption.entry(idx).or_insert(Decimal::ZERO) += matched_qty_at_buy_time;",
                                    "self.future_consumption.insert(idx, matched_qty_at_buy_time);")], ["R3:"]))],
    "C11": [on("neutral-r15", mut("r15+adjust-sold-lots", "apportioning pipeline also takes lots with nothing held",
                                  [(LED, ".filter(|(held, _)| *held > Decimal::ZERO)", ".filter(|(held, _)| *held >= Decimal::ZERO)")], ["R2:"]))],
}
_CROSS2 = {
    "C05": [on("neutral-r9", mut("r9+holding-strict", "holding helper refuses an exactly covered sale",
                                 [(M, "        if sell_amount <= total_held {", "        if sell_amount < total_held {")], ["R1:guard:shape"]))],
    "C04": [on("neutral-r9", mut("r9+proceeds-args-swapped", "carrier passes fees where the price belongs",
                                 [(M, "compute_proceeds(matched_qty, self.amount, self.price, self.fees)", "compute_proceeds(matched_qty, self.amount, self.fees, self.price)")], ["R2:"])),
            on("neutral-r10", mut("r10+fold-loss-into-gain", "fold step books a loss as a gain",
                                  [(CALC, "        Ordering::Less => (total_gain, total_loss + net.abs()),", "        Ordering::Less => (total_gain + net.abs(), total_loss),")], ["R3:"]))],
    "C18": [on("neutral-r11", mut("r11+loop-sanitiser-lf-only", "character loop replaces only \\n",
                                  [(OUTPUT, "comment.push(if matches!(ch, '\\n' | '\\r') { ' ' } else { ch });", "comment.push(if matches!(ch, '\\n') { ' ' } else { ch });")], ["R4:"]))],
    "C19": [on("neutral-r11", mut("r11+fallback-unconditional", "fallback price inserted even when vest entries exist",
                                  [(AWARDS, "    } else if let Some(first) = candidates.first() {", "    }\n    if let Some(first) = candidates.first() {")], ["R2:"]))],
    "C17": [on("neutral-r12", mut("r12+sign-test-inverted", "minus pushed for positive amounts",
                                  [(FORMAT, "    if rounded.is_sign_negative() {", "    if rounded.is_sign_positive() {")], ["R4:"]))],
    "C20": [on("neutral-r13", mut("r13+find-date-only", "find chain compares the date only",
                                  [(SERVER, ".find(|disposal| disposal.date == date && disposal.ticker.eq_ignore_ascii_case(ticker))", ".find(|disposal| disposal.date == date)")], ["R5:"]))],
    "C14": [on("neutral-r13", mut("r13+sniffer-inverted", "JSON goes to the DSL parser",
                                  [(SERVER, "        if looks_like_json(trimmed) {", "        if !looks_like_json(trimmed) {")], ["R3:"]))],
    "C08": [on("neutral-r14", mut("r14+generic-mapper-wrong-field", "generic mapper converts the price twice",
                                  [(MODELS, "                let price = convert(price)?;\n                let fees = convert(fees)?;", "                let fees = convert(price)?;\n                let price = convert(price)?;")], ["R1:"]))],
    "C11": [on("neutral-r14", mut("r14+closure-no-apportion", "closure adds the whole adjustment to every lot",
                                  [(LED, "                    lot.cost_offset += adjustment * (held / total_held);", "                    lot.cost_offset += adjustment;")], ["R4:"]))],
}

_POOL_HELPER = [(M, "        match &tx.operation {\n            Operation::Split { ratio } => {\n                if let Some(pool) = self.pools.get_mut(&tx.ticker) {\n                    pool.quantity *= *ratio;\n                }\n            }\n            Operation::Unsplit { ratio } => {\n                if let Some(pool) = self.pools.get_mut(&tx.ticker)\n                    && *ratio != Decimal::ZERO\n                {\n                    pool.quantity /= *ratio;\n                }\n            }\n            Operation::Buy { .. }\n            | Operation::Sell { .. }\n            | Operation::Dividend { .. }\n            | Operation::Accumulation { .. }\n            | Operation::CapReturn { .. } => {}\n        }\n        Ok(())\n    }\n", "        if let Some(pool) = self.pools.get_mut(&tx.ticker) {\n            scale_share_count(&mut pool.quantity, tx);\n        }\n        Ok(())\n    }\n"), (M, "\nimpl Default for Matcher {", "\n/// Rescale a share count by the line's SPLIT / UNSPLIT ratio.\nfn scale_share_count(quantity: &mut Decimal, tx: &GbpTransaction) {\n    match &tx.operation {\n        Operation::Split { ratio } => {\n            *quantity *= *ratio;\n        }\n        Operation::Unsplit { ratio } => {\n            if *ratio != Decimal::ZERO {\n                *quantity /= *ratio;\n            }\n        }\n        Operation::Buy { .. }\n        | Operation::Sell { .. }\n        | Operation::Dividend { .. }\n        | Operation::Accumulation { .. }\n        | Operation::CapReturn { .. } => {}\n    }\n}\n\nimpl Default for Matcher {")]
for _p in ("C01", "C02", "C05", "C06", "C10"):
    MUTANTS.setdefault(_p, []).append(mut("neutral-pool-scaling-helper", "pool rescaling delegated to a helper taking &mut pool.quantity", _POOL_HELPER, neutral=True))
MUTANTS.setdefault("C10", []).append(mut("pool-helper-multiplies-unsplit", "delegated pool rescaling multiplies on UNSPLIT",
    [(M, "        match &tx.operation {\n            Operation::Split { ratio } => {\n                if let Some(pool) = self.pools.get_mut(&tx.ticker) {\n                    pool.quantity *= *ratio;\n                }\n            }\n            Operation::Unsplit { ratio } => {\n                if let Some(pool) = self.pools.get_mut(&tx.ticker)\n                    && *ratio != Decimal::ZERO\n                {\n                    pool.quantity /= *ratio;\n                }\n            }\n            Operation::Buy { .. }\n            | Operation::Sell { .. }\n            | Operation::Dividend { .. }\n            | Operation::Accumulation { .. }\n            | Operation::CapReturn { .. } => {}\n        }\n        Ok(())\n    }\n", "        if let Some(pool) = self.pools.get_mut(&tx.ticker) {\n            scale_share_count(&mut pool.quantity, tx);\n        }\n        Ok(())\n    }\n"), (M, "\nimpl Default for Matcher {", "\n/// Rescale a share count by the line's SPLIT / UNSPLIT ratio.\nfn scale_share_count(quantity: &mut Decimal, tx: &GbpTransaction) {\n    match &tx.operation {\n        Operation::Split { ratio } => {\n            *quantity *= *ratio;\n        }\n        Operation::Unsplit { ratio } => {\n            if *ratio != Decimal::ZERO {\n                *quantity *= *ratio;\n            }\n        }\n        Operation::Buy { .. }\n        | Operation::Sell { .. }\n        | Operation::Dividend { .. }\n        | Operation::Accumulation { .. }\n        | Operation::CapReturn { .. } => {}\n    }\n}\n\nimpl Default for Matcher {")], ["R2:pool handler:Unsplit"]))

MUTANTS.setdefault("C18", []).append(mut("sell-row-written-as-buy", "SELL rows are written with the BUY keyword",
    [(SCHWAB, "                    output_lines.push(output::format_trade(\n                        \"SELL\",", "                    output_lines.push(output::format_trade(\n                        \"BUY\",")], ["R3:"]))

CFG_RS = "crates/cgt-core/src/config.rs"
_CROSS7 = {
    "C15": [on("neutral-r19", mut("r19+price-must-be-positive", "table-driven validator demands a positive price",
                                  [(VALID, "            FieldCheck::non_negative(\"price\", price),", "            FieldCheck::positive(\"price\", price.amount),")], ["R5:validate:Buy.price", "R5:validate:Sell.price"])),
            on("neutral-r19", mut("r19+judge-accepts-zero-quantity", "the judge lets a zero through for positive fields",
                                  [(VALID, "            (Ordering::Equal, Sign::Positive) => Some(format!(\"{action} with zero {label}\")),\n            (Ordering::Equal, Sign::NonNegative) | (Ordering::Greater, _) => None,",
                                    "            (Ordering::Equal, _) | (Ordering::Greater, _) => None,")], ["R5:validate:"])),
            on("neutral-r22", mut("r22+guard-wrong-variant", "overwrite guard tests the requested path, not the derived one",
                                  [(MAIN, "            PdfDestination::Derived(path) if path.exists() => bail!(", "            PdfDestination::Requested(path) if path.exists() => bail!(")], ["R4:main:pdf-overwrite-guard"])),
            on("neutral-r21", mut("r21+count-twice", "a skipped row is counted twice on one path",
                                  [(SCHWAB, "        self.transactions.push(CgtTransaction::Comment(comment));\n        self.skipped_count += 1;", "        self.transactions.push(CgtTransaction::Comment(comment));\n        self.skipped_count += 1;\n        self.skipped_count += 1;")], ["R2:"]))],
    "C14": [on("neutral-r23", mut("r23+sniffer-swapped", "classifier returns Dsl for '['-prefixed input",
                                  [(SERVER, "            Self::Json\n        } else {\n            Self::Dsl", "            Self::Dsl\n        } else {\n            Self::Json")], ["R3:"]))],
    "C07": [on("neutral-r23", mut("r23+tuple-le", "6 April looked up in the previous tax year (tuple comparison)",
                                  [(SERVER, "    if (date.month(), date.day()) < (4, 6) {", "    if (date.month(), date.day()) <= (4, 6) {")], ["R1:"]))],
    "C20": [on("neutral-r23", mut("r23+tuple-le-c20", "6 April looked up in the previous tax year (tuple comparison)",
                                  [(SERVER, "    if (date.month(), date.day()) < (4, 6) {", "    if (date.month(), date.day()) <= (4, 6) {")], ["R5:"])),
            on("neutral-r23", mut("r23+find-date-only", "lookup pipeline compares the date only",
                                  [(SERVER, "            .find(|d| d.date == date && d.ticker.eq_ignore_ascii_case(ticker))", "            .find(|d| d.date == date)")], ["R5:"]))],
    "C18": [on("neutral-r16", mut("r16+dedup-through-helper", "output lines pushed through a helper are de-duplicated in convert",
                                  [(SCHWAB, "        Ok(ConvertOutput {\n            cgt_content: output_lines.join(\"\\n\"),", "        output_lines.dedup();\n        Ok(ConvertOutput {\n            cgt_content: output_lines.join(\"\\n\"),")], ["R2:"])),
            on("neutral-r21", mut("r21+sell-pushed-as-buy", "Sell rows are collected with side Buy",
                                  [(SCHWAB, "            SchwabTransaction::Sell(trade) => self.push_trade(TradeSide::Sell, trade),", "            SchwabTransaction::Sell(trade) => self.push_trade(TradeSide::Buy, trade),")], ["R2:Sell:row-kind"])),
            on("neutral-r21", mut("r21+keyword-swapped", "side Sell is written BUY",
                                  [(SCHWAB, "            TradeSide::Sell => \"SELL\",", "            TradeSide::Sell => \"BUY\",")], ["R3:"])),
            on("neutral-r21", mut("r21+withholding-peeked", "dividend tax read without consuming the withholding",
                                  [(SCHWAB, "            .remove(&(date, symbol.to_string()))", "            .get(&(date, symbol.to_string()))\n            .copied()")], ["R2:dividend"]))],
    "C04": [on("neutral-r18", mut("r18+override-first-wins", "override merged with or_insert",
                                  [(CFG_RS, "        self.exemptions.extend(overrides.exemptions);", "        for (year, amount) in overrides.exemptions {\n            self.exemptions.entry(year).or_insert(amount);\n        }")], ["R7:"]))],
    "C05": [on("neutral-r22", mut("r22+create-before-compute", "output file created before the calculation",
                                  [(MAIN, "    fn run(&self) -> Result<()> {\n        let report = self.compute()?;", "    fn run(&self) -> Result<()> {\n        if let Some(path) = self.output {\n            fs::File::create(path)?;\n        }\n        let report = self.compute()?;")], ["R2:"]))],
}
_CROSS6 = {
    "C14": [on("neutral-r14", mut("r14+sell-price-positive", "carrier-struct validation also demands a positive SELL price",
                                  [(MODELS, "            Operation::Sell { amount, .. } => Some(PositiveCheck::amount(*amount, \"SELL\")),",
                                    "            Operation::Sell { price, .. } => Some(PositiveCheck::amount(price.amount, \"SELL\")),")], ["R5:json-reader"])),
            on("neutral-r4", mut("r4+buy-price-positive", "tuple-style validation tests the BUY price instead of the quantity",
                                 [(MODELS, "        Operation::Buy { amount, .. } => (*amount, \"BUY\"),", "        Operation::Buy { price, .. } => (price.amount, \"BUY\"),")], ["R5:json-reader"]))],
    "C15": [on("neutral-r5", mut("r5+needle-len-plus-one", "slice starts one byte past the needle",
                                 [("crates/cgt-converter/src/schwab/transactions.rs", "AS_OF_INFIX.len()", "AS_OF_INFIX.len() + 1")], ["R2:"]))],
    "C17": [on("neutral-r12", mut("r12+legs-filtered", "view-based plain report shows only Section 104 legs",
                                  [("crates/cgt-formatter-plain/src/lib.rs", "    for line in disposal.matches.iter().filter_map(match_line) {",
                                    "    for line in disposal.matches.iter().filter(|m| m.rule == MatchRule::Section104).filter_map(match_line) {")], ["R7:"]))],
}
_CROSS5 = {
    "C15": [on("neutral-sm-f2", mut("smf2+len-test-off-by-one", "helper indexes the first file when the slice may be empty",
                                    [(MAIN, "    if files.len() == 1 {\n        files[0].with_extension(\"pdf\")", "    if files.len() != 1 {\n        files[0].with_extension(\"pdf\")")], ["R2:"]))],
    "C13": [on("neutral-r17", mut("r17+no-final-line", "regrouped list rule needs a line break after every line",
                                  [(PEST, "transaction_list = { SOI ~ line ~ (NEWLINE ~ line)* ~ EOI }", "transaction_list = { SOI ~ (line ~ NEWLINE)* ~ EOI }")], ["R4:"])),
            on("neutral-r17", mut("r17+tax-not-reserved", "TAX missing from the factored reserved-word rule",
                                  [(PEST, "reserved_word = _{ ^\"BUY\" | ^\"SELL\" | ^\"TOTAL\" | ^\"FEES\" | ^\"TAX\" | ^\"RATIO\" }",
                                    "reserved_word = _{ ^\"BUY\" | ^\"SELL\" | ^\"TOTAL\" | ^\"FEES\" | ^\"RATIO\" }")], ["R5:follow:TAX"])),
            on("neutral-r17", mut("r17+or-zero-usd", "shared default helper builds zero USD",
                                  [(PARSER, "        .unwrap_or_else(|| CurrencyAmount::new(Decimal::ZERO, Currency::GBP))", "        .unwrap_or_else(|| CurrencyAmount::new(Decimal::ZERO, Currency::USD))")], ["R6:"])),
            on("neutral-r17", mut("r17+list-skips-first", "match_nodes list consumer drops the first transaction",
                                  [(PARSER, "[transaction(transactions).., EOI(_)] => transactions.collect(),", "[transaction(transactions).., EOI(_)] => transactions.skip(1).collect(),")], ["R2:"])),
            on("neutral-r17", mut("r17+fees-clause-ignored", "trade_terms ignores a written FEES clause",
                                  [(PARSER, "[ticker(t), quantity(q), price(p), fees(f)..] => (t, q, p, or_zero_gbp(f)),", "[ticker(t), quantity(q), price(p), fees(_f)..] => (t, q, p, or_zero_gbp(std::iter::empty())),")], ["R6:"])),
            on("neutral-r17", mut("r17+blank-line-rejected", "line no longer optional",
                                  [(PEST, "line = _{ (transaction | COMMENT)? }", "line = _{ transaction | COMMENT }")], ["R4:"])),
            on("neutral-r17", mut("r17+two-fees-arm", "dividend arm requires the TAX clause",
                                  [(PARSER, "[ticker(t), total_value(tv), tax(tx)..] => {\n                (t, Operation::Dividend {\n                    total_value: tv,\n                    tax_paid: or_zero_gbp(tx),",
                                    "[ticker(t), total_value(tv), tax(tx)] => {\n                (t, Operation::Dividend {\n                    total_value: tv,\n                    tax_paid: or_zero_gbp(std::iter::once(tx)),")], ["R1:cmd_dividend"]))],
}
_CROSS8 = {
    "C08": [on("neutral-r25", mut("r25+zero-rate-allowed", "pipeline parser builds a quote from a rate >= 0",
                                  [(MPARSER, "Ok(rate_per_gbp) if rate_per_gbp > Decimal::ZERO => Ok(Some(Quote {", "Ok(rate_per_gbp) if rate_per_gbp >= Decimal::ZERO => Ok(Some(Quote {")], ["R7:rate"])),
            on("neutral-r25", mut("r25+month-not-compared", "period carrier compares the year only",
                                  [(MPARSER, "if (expected_year, expected_month) != (self.year, self.month) =>", "if expected_year != self.year =>")], ["R7:period:month"]))],
    "C14": [on("neutral-r27", mut("r27+sell-price-fees-swapped", "carrier-struct reader puts the FEES amount into price and the price into fees",
                                  [(PARSER, "            Operation::Sell {\n                amount,\n                price,\n                fees,\n            }",
                                    "            Operation::Sell {\n                amount,\n                price: fees,\n                fees: price,\n            }")], ["R1:"]))],
    "C15": [on("neutral-r28", mut("r28+derived-path-flag-false", "helper returns the single-file default path with is_default = false",
                                  [(MAIN, "        (None, [single]) => (single.with_extension(\"pdf\"), true),", "        (None, [single]) => (single.with_extension(\"pdf\"), false),")], ["R4:"]))],
    "C20": [on("neutral-r29", mut("r29+query-matches-date-only", "delegating lookup predicate compares the date only",
                                  [(SERVER, "        disposal.date == self.date && self.same_ticker(disposal)", "        disposal.date == self.date")], ["R5:"]))],
}
for _p, _ms in list(_CROSS8.items()) + list(_CROSS.items()) + list(_CROSS2.items()) + list(_CROSS3.items()) + list(_CROSS4.items()) + list(_CROSS5.items()) + list(_CROSS6.items()) + list(_CROSS7.items()):
    MUTANTS.setdefault(_p, []).extend(_ms)

# ---- round 8 (the mechanisms of the s8 seeds, as one-line breaks)
_R8 = {
    "C08": [mut("rates-code-as-written", "rates parser looks the currency code up as written (no case folding)",
                [(MPARSER, "let code_raw = rate.currency_code.trim().to_uppercase();", "let code_raw = rate.currency_code.trim().to_string();")], ["R9:"])],
    "C19": [mut("guard-arm-shadows-literal", "a `starts_with(\"Forced\")` guard arm above the non-vesting literals",
                [(AWARDS, "        Some(\"Wire Transfer\")\n", "        Some(f) if f.starts_with(\"Forced\") => AwardAction::Vesting,\n        Some(\"Wire Transfer\")\n")], ["R4:"])],
    "C18": [mut("symbol-uppercased-one-side", "common row fields upper-case the symbol, withholding rows keep it as written",
                [(TRANS, "let symbol = get_required_string(value, KEY_SYMBOL, KEY_SYMBOL)?.to_string();", "let symbol = get_required_string(value, KEY_SYMBOL, KEY_SYMBOL)?.to_uppercase();")], ["R2:symbol-normalisation"])],
    "C14": [mut("writer-rounded-zero-test", "FEES clause omitted when the fee rounds to zero at two decimals",
                [(DSL, "if !fees.amount.is_zero() {", "if !fees.amount.round_dp(2).is_zero() {")], ["R1:"])],
    "C15": [mut("refusal-into-absence", "an out-of-range disposal date is skipped instead of failing the all-years report",
                [(CALC, "        let tax_period = TaxPeriod::from_date(m.disposal_date)?;\n", "        let Some(tax_period) = TaxPeriod::from_date(m.disposal_date).ok() else {\n            continue;\n        };\n")], ["R7:"])],
    "C04": [mut("dedup-after-sort", "identical adjacent lines dropped after the canonical sort",
                [(M, "        transactions.sort_by(|a, b| a.date.cmp(&b.date));\n", "        transactions.sort_by(|a, b| a.date.cmp(&b.date));\n        transactions.dedup();\n")], ["R9:"])],
    "C02": [mut("dedup-after-sort", "identical adjacent lines dropped after the canonical sort",
                [(M, "        transactions.sort_by(|a, b| a.date.cmp(&b.date));\n", "        transactions.sort_by(|a, b| a.date.cmp(&b.date));\n        transactions.dedup();\n")], ["R10:"])],
}
for _p, _ms in _R8.items():
    MUTANTS.setdefault(_p, []).extend(_ms)

_R8B = {
    "C17": [mut("server-truncates-ledger", "the MCP server cuts the parsed ledger before calculating",
                [(SERVER, "        let transactions = self.parse_input(input)?;\n", "        let mut transactions = self.parse_input(input)?;\n        transactions.truncate(1000);\n")], ["R12:"])],
    "C20": [mut("server-truncates-ledger", "the MCP server cuts the parsed ledger before calculating",
                [(SERVER, "        let transactions = self.parse_input(input)?;\n", "        let mut transactions = self.parse_input(input)?;\n        transactions.truncate(1000);\n")], ["R4:"])],
}
for _p, _ms in _R8B.items():
    MUTANTS.setdefault(_p, []).extend(_ms)

# round 9: each stored seeded change of the round as a thorough-tier mutant (the stored patch is the base, no further edit), expected
# to be reported by the rule that was added or shared for it in its own property
_R9 = {
    "C01": ("C01-s9", "the day's purchases are indexed by BUY lines only: 30-day claims are looked up under a shifted key", ["R6:"]),
    "C02": ("C02-s9", "pooling and SPLIT/UNSPLIT fused into one line-by-line pass", ["R7:"]),
    "C03": ("C03-s9", "the cost pre-pass restates a lot's size at a SPLIT but not its consumed count", ["R6:"]),
    "C05": ("C05-s9", "pooling and SPLIT/UNSPLIT fused into one line-by-line pass", ["R5:"]),
    "C06": ("C06-s9", "the CLI skips lines an earlier input file already contains", ["R4:"]),
    "C07": ("C07-s9", "all-years report flat_maps over Result: years outside the exemption table vanish", ["R5:"]),
    "C08": ("C08-s9", "a FEES/TAX amount without a code takes the currency of the price on its line", ["R9:"]),
    "C10": ("C10-s9", "pooling and SPLIT/UNSPLIT fused into one line-by-line pass", ["R7:"]),
    "C12": ("C12-s9", "the canonicaliser reverses a newest-first list before the stable sort", ["R4:"]),
    "C13": ("C13-s9", "merged SPLIT|UNSPLIT rule, direction picked by a case-sensitive starts_with", ["R3:"]),
    "C14": ("C14-s9", "the list writer sorts by date and ticker", ["R1:"]),
    "C16": ("C16-s9", "awards lookup scans the hash map with max_by_key after symbols stopped being upper-cased", ["R1:"]),
    "C17": ("C17-s9", "SUMMARY cells formatted with a precision: long figures are clipped in the text report only", ["R4:"]),
    "C18": ("C18-s9", "unknown-row description truncated at a byte position (panics inside a multi-byte character)", ["R6:"]),
    "C19": ("C19-s9", "RSU deposit priced from the row's own Price when the awards lookup fails", ["R3:"]),
}
for _p, (_base, _what, _exp) in _R9.items():
    _m = mut("s9-" + _base.lower(), _what, [], _exp)
    _m["base"] = _base
    MUTANTS.setdefault(_p, []).append(_m)

# on top of the small edit sm-u3 (period check in the parser, row loop in a helper): the rules must still see both halves
MUTANTS.setdefault("C08", []).extend([
    on("neutral-sm-u3", mut("sm-u3", "behaviour-preserving: rate rows built in a helper called after the period check", [], neutral=True)),
    on("neutral-sm-u3", mut("sm-u3+zero-rate-allowed", "the helper rejects only negative rates", [(MPARSER, "        if rate_decimal <= Decimal::ZERO {", "        if rate_decimal < Decimal::ZERO {")], ["R7:rate:positive"])),
    on("neutral-sm-u3", mut("sm-u3+month-unchecked", "the parser compares only the year with the expected period", [(MPARSER, "        && (year != expected_year || month != expected_month)", "        && year != expected_year")], ["R7:period:month"])),
])

# round 10 (eight seeds): as thorough-tier mutants under the rule of their own property
_R10 = {
    "C06": ("C06-s10", "same-day lots debited by a ratio that is counted down inside the loop", ["R3:"]),
    "C12": ("C12-s10", "whole-timeline SPLIT flag switches the look-ahead's branch", ["R1:"]),
    "C14": ("C14-s10", "DSL parser resolves withdrawn ISO codes to their successors", ["R1:"]),
    "C17": ("C17-s10", "JSON money rounded to 4 dp and then to pence", ["R1:"]),
}
for _p, (_base, _what, _exp) in _R10.items():
    _m = mut("s10-" + _base.lower(), _what, [], _exp)
    _m["base"] = _base
    MUTANTS.setdefault(_p, []).append(_m)
