"""Thorough tier: seeded one-instance breaks (and behaviour-preserving variants) applied to a scratch copy of /repo
outside /repo and /verif; each must still compile under the driver; the property's rules are re-evaluated on the
mutated tree's facts. Results are evidence about the CHECKER (detected / missed / silent-as-required), never
VIOLATION lines about /repo. Scratch copies and their fact caches are removed after each mutant."""
import json
import os
import shutil
import subprocess
import tempfile
import time

import core


def _copy_repo(dst):
    os.makedirs(dst, exist_ok=True)
    r = subprocess.run(["rsync", "-a", "--delete", "--exclude", "/target", "--exclude", "/.git", "--exclude", "/web",
                        core.REPO + "/", dst + "/"], stdout=subprocess.PIPE, stderr=subprocess.STDOUT, text=True)
    if r.returncode != 0:
        raise core.Broken("rsync of /repo failed: " + r.stdout[-500:])


def apply_edits(root, edits):
    """edits: list of (relative file, find, replace). Returns None if applied, else a reason."""
    for rel, find, repl in edits:
        p = os.path.join(root, rel)
        if not os.path.exists(p):
            return f"file {rel} not found"
        s = open(p).read()
        n = s.count(find)
        if n == 0:
            return f"anchor text not found in {rel} (source changed)"
        s = s.replace(find, repl, 1)
        open(p, "w").write(s)
    return None


def run_suite(prop, mod, rep):
    muts = getattr(mod, "MUTANTS", None)
    if muts is None:
        import mutant_table
        muts = mutant_table.MUTANTS.get(prop, [])
    known = {k["key"] for k in core.load_known() if k.get("property") == prop and k.get("status") == "open"}
    base_keys = {v["key"] for v in rep.violations}
    scratch_parent = tempfile.mkdtemp(prefix="cgtv-mut-")
    scratch = os.path.join(scratch_parent, "repo")
    try:
        for m in muts:
            t0 = time.time()
            rec = {"id": m["id"], "what": m["what"], "neutral": bool(m.get("neutral"))}
            _copy_repo(scratch)
            why = None
            if m.get("base"):
                # start from a stored behaviour-preserving refactoring of /repo (seeded/neutral-*/patch.diff)
                pf = os.path.join(core.VERIF, "seeded", m["base"], "patch.diff")
                pr = subprocess.run(["patch", "-p1", "-s", "-i", pf], cwd=scratch, stdout=subprocess.PIPE, stderr=subprocess.STDOUT, text=True)
                if pr.returncode != 0:
                    why = f"base patch {m['base']} does not apply to the current tree"
            why = why or apply_edits(scratch, m["edits"])
            if why:
                rec["result"] = "not-applicable"
                rec["detail"] = why
                rep.mutants.append(rec)
                continue
            facts_dir = None
            try:
                facts_dir = core.extract(scratch)
            except core.Broken as e:
                rec["result"] = "does-not-compile"
                rec["detail"] = str(e)[-400:]
                rep.mutants.append(rec)
                continue
            try:
                ctx = core.Ctx(facts_dir, scratch)
                r2 = core.Report(prop)
                try:
                    mod.run(ctx, r2)
                except Exception as e:  # a role that vanished is a detection, not a crash
                    import mir
                    if isinstance(e, mir.RoleError):
                        r2.unresolved("ROLE", "lookup", str(e))
                    else:
                        raise
                new = sorted({v["key"] for v in r2.violations} - base_keys - known)
                rec["new_violation_keys"] = new[:8]
                if m.get("neutral"):
                    rec["result"] = "silent-as-required" if not new else "FALSE-ALARM"
                else:
                    exp = m.get("expect") or []
                    hit = [k for k in new if any(e in k for e in exp)] if exp else new
                    rec["result"] = "detected" if hit else ("detected-other-rule" if new else "MISSED")
                    rec["matched"] = hit[:4]
            finally:
                pass  # fact sets of scratch trees are bounded by core._gc_facts (another check may share the hash)
            rec["wall_s"] = round(time.time() - t0, 1)
            rep.mutants.append(rec)
    finally:
        shutil.rmtree(scratch_parent, ignore_errors=True)
    n = len(rep.mutants)
    det = sum(1 for x in rep.mutants if x["result"] in ("detected", "detected-other-rule"))
    sil = sum(1 for x in rep.mutants if x["result"] == "silent-as-required")
    bad = [x["id"] for x in rep.mutants if x["result"] in ("MISSED", "FALSE-ALARM")]
    rep.note(f"mutant suite: {n} variants, {det} breaks detected, {sil} behaviour-preserving variants silent, problems: {bad or 'none'}")
    for x in rep.mutants:
        print("MUTANT %-28s %s %s" % (x["id"], x["result"], (x.get("matched") or x.get("new_violation_keys") or [""])[0] if x["result"] != "not-applicable" else x.get("detail", "")))
