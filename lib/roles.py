"""Structural discovery of roles in the matcher (DESIGN.md App. A). No private names are used as anchors:
roles are found from public model types (Match, MatchRule, Section104Holding, AcquisitionLot, Operation) and
std/dependency callees; private names only appear in reports."""
from mir import (Terms, RoleError, parse_callee, show, op_place, op_const, place_proj, subterms, is_decimal_arith_assign,
                 calls_in)
from flow import root_of_operand, is_slice_sort
import panics as P

RULES = ("SameDay", "BedAndBreakfast", "Section104")
MATCH = "cgt_core::models::Match"
POOL = "cgt_core::models::Section104Holding"
LOT = "cgt_core::matcher::acquisition_ledger::AcquisitionLot"


def is_agg(t, adt_suffix=None):
    return isinstance(t, tuple) and t and t[0] == "agg" and (adt_suffix is None or t[1].endswith(adt_suffix))


def agg_fields(t):
    return dict(t[3])


def match_aggs_in_term(t):
    return [x for x in subterms(t) if is_agg(x, "models::Match") and "rule" in agg_fields(x)]


def rule_of(match_term):
    r = agg_fields(match_term).get("rule")
    if is_agg(r, "MatchRule"):
        return r[2]
    return None


class Roles:
    def __init__(self, F, depth=2):
        self.F = F
        self.depth = depth
        self.bodies = [b for b in F.bodies.values() if b.crate == "cgt_core" and "::matcher::" in b.id and P.user_written(F, b)]
        self._terms = {}
        self.legs = {}          # rule -> (body, [(bb, MatchResult-or-Match term, site)])
        self.helpers = set()
        self._find_legs()
        self.cascade = self._find_cascade()
        self._refine_by_call_structure()
        self.dayloop = self._find_dayloop()
        self.prepass = self._find_prepass()
        self.canon = self._find_canon()

    def terms(self, b, depth=None):
        d = self.depth if depth is None else depth
        k = (b.id, d)
        if k not in self._terms:
            self._terms[k] = Terms(self.F, b, inline_depth=d)
        return self._terms[k]

    # ---- leg producers
    def match_sites(self, b):
        """(bb, term, site) for every Match/MatchResult value built in b, directly or through an inlined helper"""
        tb = self.terms(b)
        out = []
        for i, si, s in b.assigns():
            rv = s["rv"]
            if rv["k"] == "agg" and rv["adt"] == MATCH:
                out.append((i, tb.rvalue(rv), b.loc(s["sp"]), "direct"))
        for i, t in b.calls():
            if t["callee"] in self.F.bodies and t["callee"] not in (b.id,):
                term = tb.call_term(t)
                for m in match_aggs_in_term(term):
                    out.append((i, m, b.loc(t["sp"]), "via:" + t["callee"]))
        return out

    def _find_legs(self):
        direct = {}
        for b in self.bodies:
            for i, term, site, how in self.match_sites(b):
                r = rule_of(term)
                if r in RULES:
                    direct.setdefault(r, []).append((b, i, term, site, how))
        # a body in which the legs of two or more rules are visible is the cascade (or above it), not a leg producer
        seen_rules = {}
        for r, cs in direct.items():
            for c in cs:
                seen_rules.setdefault(c[0].id, set()).add(r)
        multi = {bid for bid, rs in seen_rules.items() if len(rs) >= 2}

        def pure_builder(b):
            """only assembles the value: no `&mut` parameter and no in-place Decimal arithmetic"""
            if any(b.local_ty(k + 1).startswith("&mut ") or b.local_ty(k + 1).startswith("&'_ mut ") for k in range(b.argc)):
                return False
            return not any(is_decimal_arith_assign(t["callee"]) for _, t in b.calls())
        for r in RULES:
            cands = [c for c in direct.get(r, []) if c[0].id not in multi] or direct.get(r, [])
            if not cands:
                continue
            # the producer is the innermost function that does more than assemble the value: drop pure builders, then
            # drop every candidate that merely obtains the leg from another remaining candidate
            pool = [c for c in cands if not pure_builder(c[0])] or cands
            pool_ids = {c[0].id for c in pool}
            pick = [c for c in pool if not (c[4].startswith("via:") and c[4][4:] in pool_ids and c[4][4:] != c[0].id)] or pool
            b = pick[0][0]
            self.legs[r] = (b, [(c[1], c[2], c[3]) for c in pick if c[0].id == b.id])
            for c in pick:
                if c[0].id == b.id and c[4].startswith("via:"):
                    self.helpers.add(c[4][4:])

    def _rules_in_region(self, L):
        """{rule: [(block of L, Match term in L's terms, site)]} for Match values built in L or in the helpers it delegates to"""
        rg = Region(self, L, depth=2, stop=(), arg_depth=2)
        out = {}
        for ex in rg.expansions:
            hb, tb, conv = ex["body"], ex["tb"], ex["conv"]
            for i, si, s in hb.assigns():
                rv = s["rv"]
                if rv["k"] == "agg" and rv["adt"] == MATCH:
                    term = conv(tb.rvalue(rv))
                    rr = rule_of(term)
                    if rr in RULES:
                        out.setdefault(rr, []).append((ex["root_bb"] if ex["root_bb"] is not None else i, term, hb.loc(s["sp"])))
        return out, rg

    def _refine_by_call_structure(self):
        """Leg producers are the functions the cascade CALLS: a body C with three distinct direct callees, each producing (itself
        or through its helpers) the legs of exactly one rule. When this agrees with the value-based discovery nothing
        changes; when a leg's work has been pushed down into a helper (`look_ahead.match_against_buy(..)` called from the
        look-ahead loop) the producer is the called function with the loop, and its Match sites are seen through the region."""
        vis = {}
        def vis_of(bid):
            if bid not in vis:
                vis[bid] = self._rules_in_region(self.F.bodies[bid])
            return vis[bid]
        ids = {b.id for b in self.bodies if b.kind in ("fn", "method")}
        best = None
        for c in self.bodies:
            if c.kind not in ("fn", "method"):
                continue
            callees = [t["callee"] for _, t in c.calls() if t["callee"] in ids and t["callee"] != c.id]
            per_rule = {}
            for cal in dict.fromkeys(callees):
                rs, _ = vis_of(cal)
                if len(rs) == 1:
                    per_rule.setdefault(next(iter(rs)), []).append(cal)
            if all(len(per_rule.get(r, [])) == 1 for r in RULES):
                if best is None or len(c.blocks) < len(best[0].blocks):
                    best = (c, {r: per_rule[r][0] for r in RULES})
        if best is None:
            return
        c, legs = best
        self.cascade = c
        for r, lid in legs.items():
            if r in self.legs and self.legs[r][0].id == lid:
                continue
            rs, rg = vis_of(lid)
            L = self.F.bodies[lid]
            self.legs[r] = (L, rs[r])
            self.helpers |= {bid for bid in rg.bodies if bid != lid and self.F.bodies[bid].kind != "closure"}

    def leg(self, r):
        if r not in self.legs:
            raise RoleError(f"no function builds Match {{ rule: MatchRule::{r}, .. }} in the matcher module")
        return self.legs[r]

    # ---- cascade / day loop / pre-pass / canonicaliser
    def _callees_within(self, b, n):
        seen = {b.id}
        frontier = {b.id}
        for _ in range(n):
            nxt = set()
            for x in frontier:
                for y in self.F.callgraph().get(x, ()):
                    if y in self.F.bodies and y not in seen:
                        seen.add(y)
                        nxt.add(y)
            frontier = nxt
        return seen

    def _find_cascade(self):
        leg_ids = {v[0].id for v in self.legs.values()}
        if len(self.legs) < 3:
            return None
        c = []
        for b in self.bodies:
            if b.id in leg_ids or b.id in self.helpers:
                continue
            direct = {t["callee"] for _, t in b.calls()}
            if leg_ids <= direct:
                c.append(b)
        if len(c) != 1:
            # fall back: reachable within two calls, pick the one with the smallest reach
            c2 = [b for b in self.bodies if b.id not in leg_ids and leg_ids <= self._callees_within(b, 2)]
            c2.sort(key=lambda b: len(self._callees_within(b, 2)))
            return c2[0] if c2 else None
        return c[0]

    def _find_dayloop(self):
        if self.cascade is None:
            return None
        for b in self.bodies:
            for i, t in b.calls():
                if t["callee"] == self.cascade.id and b.in_loop(i):
                    return b
        return None

    def _find_prepass(self):
        """the callee of the day loop from which a writer of lot.cost_offset is reachable (through helpers)"""
        if self.dayloop is None:
            return None
        writers = {w[0].parent or w[0].id for w in self.field_writes(LOT, "cost_offset") if w[2] != "construct"}
        out = []
        for i, t in self.dayloop.calls():
            cb = self.F.bodies.get(t["callee"])
            if cb is None or cb not in self.bodies or (self.cascade is not None and cb.id == self.cascade.id):
                continue
            seen = self._callees_within(cb, 3)
            if seen & writers and cb.id not in [o.id for o in out]:
                out.append(cb)
        return out[0] if len(out) == 1 else None

    def _find_canon(self):
        if self.dayloop is None:
            return None
        for i, t in self.dayloop.calls():
            cb = self.F.bodies.get(t["callee"])
            if cb is not None and any(is_slice_sort(u["callee"]) for _, u in cb.calls()):
                return cb
        return None

    def role_ids(self):
        ids = {v[0].id for v in self.legs.values()} | set(self.helpers)
        for n in ("cascade", "prepass", "canon"):
            v = getattr(self, n)
            if v is not None:
                ids.add(v.id)
        return ids

    def region(self, root, depth=2, extra_stop=(), arg_depth=0):
        stop = self.role_ids() - {root.id}
        if root.id in {v[0].id for v in self.legs.values()}:
            stop -= set(self.helpers)       # a leg producer's region includes its own helpers
        return Region(self, root, depth, stop=stop | set(extra_stop), arg_depth=arg_depth)

    def merge_site(self):
        """the body that folds one line into its neighbour: the canonicaliser itself, or the helper / closure of its region
        (depth 2) that holds the Decimal `+=` accumulations — extracting the merge arm into `fn absorb(current, next) -> bool`
        must not lose the anchor"""
        from mir import is_decimal_arith_assign
        c = self.require("canon")

        def has(b):
            return any(is_decimal_arith_assign(t["callee"]) == "AddAssign" for _, t in b.calls())
        if has(c):
            return c
        for b in self.region(c).bodies.values():
            if b.id != c.id and has(b):
                return b
        return c

    def require(self, name):
        v = getattr(self, name)
        if v is None:
            raise RoleError(f"role {name.upper()} not resolved")
        return v

    # ---- shared helpers
    def field_writes(self, adt, field, bodies=None):
        """(body, bb, kind, site, rhs-term) for every write to `adt.field`: compound assignment, direct assignment,
        or construction with a non-zero value"""
        out = []
        for b in (bodies or [x for x in self.F.bodies.values() if x.crate.startswith("cgt_") and P.user_written(self.F, x)]):
            tb = None
            for i, t in b.calls():
                k = is_decimal_arith_assign(t["callee"])
                if k and t["args"]:
                    p = op_place(t["args"][0])
                    if p is None:
                        continue
                    # arg0 is &mut place: resolve the reference
                    tgt = self._ref_target(b, p)
                    if tgt and tgt[0] == adt and tgt[1] == field:
                        tb = tb or self.terms(b)
                        out.append((b, i, k, b.loc(t["sp"]), tb.operand(t["args"][1])))
                elif not k and t["args"]:
                    # `helper(&mut x.field, ..)`: the helper's compound assignments through that parameter are writes of the
                    # field, made at this call site (one level; the right-hand side is the helper's own term)
                    hb = self.F.bodies.get(t["callee"])
                    if hb is None or hb.id == b.id or not hb.crate.startswith("cgt_"):
                        continue
                    for ai, a in enumerate(t["args"]):
                        p = op_place(a)
                        if p is None:
                            continue
                        tgt = self._ref_target(b, p)
                        if not (tgt and tgt[0] == adt and tgt[1] == field):
                            continue
                        htb = None
                        for j, u in hb.calls():
                            hk = is_decimal_arith_assign(u["callee"])
                            if not hk or not u["args"]:
                                continue
                            hp = op_place(u["args"][0])
                            if hp is not None and self._param_root(hb, hp) == ai + 1:
                                htb = htb or self.terms(hb)
                                out.append((b, i, hk, b.loc(t["sp"]), htb.operand(u["args"][1])))
            for i, si, s in b.assigns():
                lhs = s["lhs"]
                lf = _last_named_field(lhs)
                if lf and lf.get("adt") == adt and lf.get("n") == field:
                    tb = tb or self.terms(b)
                    out.append((b, i, "assign", b.loc(s["sp"]), tb.rvalue(s["rv"])))
                rv = s["rv"]
                if rv["k"] == "agg" and rv["adt"] == adt and field in rv["fields"]:
                    tb = tb or self.terms(b)
                    val = tb.operand(rv["ops"][rv["fields"].index(field)])
                    out.append((b, i, "construct", b.loc(s["sp"]), val))
        return out

    def partial_restatements(self, adt, size_fields, counters, bodies=None):
        """[(body, site, written, missing)] for every function that re-writes the SIZE of a lot-like record (a write to one of
        `size_fields` other than its construction) without re-writing every share counter booked against it (`counters`):
        size and counters are in the same unit, so restating one of them alone changes what `size − counters` says is held"""
        out = []
        per = {}
        for f in list(size_fields) + list(counters):
            for w in self.field_writes(adt, f, bodies):
                if w[2] == "construct":
                    continue
                per.setdefault(w[0].id, {}).setdefault(f, []).append(w)
        for bid, fw in per.items():
            if not any(f in fw for f in size_fields):
                continue
            missing = [f for f in list(size_fields) + list(counters) if f not in fw]
            w0 = next(fw[f][0] for f in size_fields if f in fw)
            if missing:
                out.append((w0[0], w0[3], sorted(fw), missing))
        return out

    def _param_root(self, b, p, depth=0):
        """the parameter (local number) a `&mut` local is a copy / re-borrow of, or None"""
        if depth > 6:
            return None
        if 1 <= p["l"] <= b.argc:
            return p["l"]
        ds = b.defs().get(p["l"], [])
        if len(ds) != 1 or ds[0][0] != "assign":
            return None
        rv = ds[0][3]["rv"]
        if rv["k"] in ("ref", "rawptr"):
            q = rv["p"]
            if all(e == "deref" for e in place_proj(q)):
                return self._param_root(b, {"l": q["l"]}, depth + 1)
            return None
        if rv["k"] == "use":
            q = op_place(rv["op"])
            if q is not None and all(e == "deref" for e in place_proj(q)):
                return self._param_root(b, {"l": q["l"]}, depth + 1)
        return None

    def _ref_target(self, b, p, depth=0):
        """for a local holding &mut X.f: return (adt of X, f)"""
        if place_proj(p):
            lf = _last_named_field(p)
            if lf:
                return (lf.get("adt"), lf.get("n"))
        if depth > 6:
            return None
        ds = b.defs().get(p["l"], [])
        if len(ds) != 1 or ds[0][0] != "assign":
            return None
        rv = ds[0][3]["rv"]
        if rv["k"] in ("ref", "rawptr"):
            lf = _last_named_field(rv["p"])
            if lf:
                return (lf.get("adt"), lf.get("n"))
            return self._ref_target(b, {"l": rv["p"]["l"]}, depth + 1) if not _has_field(rv["p"]) else None
        if rv["k"] == "use":
            q = op_place(rv["op"])
            if q is not None:
                return self._ref_target(b, q, depth + 1)
        return None


class Region:
    """A root body seen together with the helpers it delegates to: same-crate, user-written functions that are not
    themselves roles (`stop`), reachable within `depth` calls, plus the closures created on the way. Every item
    remembers the block of the ROOT from which it is reached (`root_bb`) and a converter that rewrites a term of
    the helper's context into the root's context (parameter / captured-variable substitution). Extracting a helper,
    or turning a loop into `iter().for_each(..)`, therefore does not hide a call from a rule."""

    def __init__(self, R, root, depth=2, stop=(), ledger=False, arg_depth=0):
        self.R = R
        self.arg_depth = arg_depth
        self.ledger = ledger or root.id.startswith("cgt_core::matcher::acquisition_ledger::")
        self.F = R.F
        self.root = root
        self.stop = set(stop)
        self.items = []      # dicts: body, bb, term, root_bb, conv, tb, path
        self.bodies = {root.id: root}
        self.convs = {}
        self.expansions = []
        self._closures_done = set()
        self._expand(root, None, lambda t: t, depth, (root.short,))

    def _is_helper(self, h):
        if h is None or h.id in self.stop or h.id == self.root.id:
            return False
        if h.crate != self.root.crate or h.kind not in ("fn", "method"):
            return False
        if not P.user_written(self.F, h):
            return False
        if h.id.startswith("cgt_core::matcher::acquisition_ledger::") and not self.ledger:
            return False
        return True

    def _expand(self, body, root_bb, conv, d, path, via=None):
        from mir import subst
        tb = self.R.terms(body, self.arg_depth)
        self.convs[body.id] = conv
        ex = dict(body=body, conv=conv, root_bb=root_bb, path=path, tb=tb, via=via)
        self.expansions.append(ex)
        for i, t in body.calls():
            rb = root_bb if root_bb is not None else i
            it = dict(body=body, bb=i, term=t, root_bb=rb, conv=conv, tb=tb, path=path, ex=ex)
            self.items.append(it)
            h = self.F.bodies.get(t["callee"])
            # a helper is expanded once per call site (its parameters differ from site to site); recursion is cut by `path`
            if d > 0 and self._is_helper(h) and h.short not in path and len(self.expansions) < 400:
                args_terms = [conv(tb.operand(a)) for a in t["args"]]
                self.bodies[h.id] = h
                self._expand(h, rb, (lambda term, A=args_terms: subst(term, A)), d - 1, path + (h.short,), via=it)
        for i, si, s in body.assigns():
            rv = s["rv"]
            if rv["k"] == "closure" and rv["id"] in self.F.bodies and (rv["id"], path) not in self._closures_done:
                self._closures_done.add((rv["id"], path))
                cb = self.F.bodies[rv["id"]]
                caps = [conv(tb.operand(o)) for o in rv["ops"]]
                rb = root_bb if root_bb is not None else i
                self.bodies[cb.id] = cb

                def cconv(term, caps=caps, cid=cb.id):
                    def sub(x):
                        if not isinstance(x, tuple) or not x:
                            return x
                        if x[0] == "field" and isinstance(x[1], tuple) and x[1] and x[1][0] == "param" and x[1][1] == 0:
                            try:
                                return caps[int(x[2])]
                            except (ValueError, IndexError):
                                return x
                        if x[0] == "param" and x[1] >= 1:
                            # the closure's own parameters must not be mistaken for the root's
                            return ("cparam", cid, x[1], x[2] if len(x) > 2 else None)
                        return tuple(sub(y) if isinstance(y, tuple) else y for y in x)
                    return sub(term)
                self._expand(cb, rb, cconv, d, path + (cb.id,), via=dict(body=body, bb=i, closure=cb.id, ex=ex))

    def calls(self, pred):
        for it in self.items:
            if pred(it["term"]["callee"]):
                yield it

    def arg(self, it, k):
        """k-th argument of the call, as a term of the ROOT's context"""
        return it["conv"](it["tb"].operand(it["term"]["args"][k]))

    def local_args(self, it):
        return [it["tb"].operand(a) for a in it["term"]["args"]]


def _has_field(p):
    return any(isinstance(e, dict) and "f" in e for e in place_proj(p))


def _last_named_field(p):
    for e in reversed(place_proj(p)):
        if isinstance(e, dict) and "f" in e:
            return e if "n" in e else None
        if e == "deref":
            continue
        if isinstance(e, dict) and "dc" in e:
            continue
        break
    return None


def sell_time_ratio(q):
    """Match.quantity of a 30-day leg has the form min(remaining, available ÷ R): return (remaining, available, R) or None"""
    if isinstance(q, tuple) and q and q[0] == "call" and parse_callee(q[1])[2] == "min" and len(q[2]) == 2:
        a, c = q[2]
        for rem, div in ((a, c), (c, a)):
            if isinstance(div, tuple) and div and div[0] == "/" and isinstance(rem, tuple) and rem and rem[0] == "param":
                return rem, div[1], div[2]
    return None


def times_ratio(term, q, r):
    """term == q × r (as a normalised product)"""
    from mir import mk_mul
    return term == mk_mul([q, r])




def iterator_chain(F, chain, depth=0, info=None):
    """An iterator-adaptor chain read stage by stage: -> (source term, element term reaching the consumer, [(condition on the
    source element, kind, closure id)] for filter / take_while stages, skip start, reversed?) or None when a stage is not
    modelled. The source element is ('elem', source), its enumerate index ('eidx', source)."""
    from mir import closure_summary, summary, subst
    stages = []
    x = chain
    ADAPTORS = ("iter", "into_iter", "by_ref", "copied", "cloned", "iter_mut", "peekable", "fuse", "enumerate", "skip", "rev", "filter",
                "take_while", "skip_while", "map", "inspect", "take", "step_by", "filter_map", "flat_map", "chain", "zip", "flatten")
    while isinstance(x, tuple) and x and x[0] == "call" and x[2] and parse_callee(x[1])[2] in ADAPTORS:
        stages.append((parse_callee(x[1])[2], x))
        x = x[2][0]
    source = x
    SRC_E, SRC_I = ("elem", source), ("eidx", source)
    el = SRC_E
    pending = []
    start = None
    rev = False
    dropped = []        # stages before `enumerate` after which a position in the stream is no longer the position in the source
    for m, call in reversed(stages):
        args = call[2]
        if m in ("iter", "into_iter", "by_ref", "copied", "cloned", "iter_mut", "peekable", "fuse"):
            continue
        if m == "enumerate":
            if info is not None:
                info["enumerate"] = True
                info["misaligned_by"] = list(dropped)
            el = ("tuple", (SRC_I, el))
        elif m == "skip" and len(args) == 2:
            start = args[1]
            dropped.append("skip")
        elif m == "rev":
            rev = True
            dropped.append("rev")
        elif m in ("filter", "take_while", "skip_while", "map", "inspect") and len(args) == 2:
            clo = args[1]
            if isinstance(clo, tuple) and clo and clo[0] == "closure" and clo[1] in F.bodies:
                summ = closure_summary(F, clo[1], depth)
                if summ is None:
                    return None
                res = subst(summ, [("tuple", tuple(clo[2])), el])
            elif isinstance(clo, tuple) and clo and clo[0] == "fn" and clo[1] in F.bodies:
                summ = summary(F, clo[1], depth)
                if summ is None:
                    return None
                res = subst(summ, [el])
            else:
                return None
            if m in ("filter", "skip_while"):
                dropped.append(m)
            if m in ("filter", "take_while"):
                pending.append((res, m, clo[1]))
            elif m == "map":
                el = res
        else:
            return None     # an adaptor this model does not know: no claim about the conditions
    return source, el, pending, start, rev


class Pipeline:
    """The iterator chain feeding a `for` loop, read as guards. `for x in src.iter().enumerate().skip(k).filter(p).map(f)
    .take_while(q)` lets the body see an element only when p and q hold, so — for every rule that asks under which conditions
    a block runs — those closures are branch conditions just like `if !p { continue }` / `if !q { break }` in the loop body.
    Conditions are expressed in the vocabulary of the loop body: `elem` is the value the loop variable is bound to
    (`some(next(iter))`), its tuple components are `elem.0`, `elem.1`, …"""

    def __init__(self, F, b, tb, header, blks):
        from mir import closure_summary, summary, subst
        self.ok = False
        self.guards = []        # (cond term in loop-body vocabulary, kind, closure id)
        self.start = None
        self.reversed = False
        self.source = None
        self.elem = None
        nx = [(i, t) for i, t in b.calls() if i in blks and parse_callee(t["callee"])[2] == "next" and t.get("target") is not None
              and b.term(t["target"])["k"] == "switch"]
        if len(nx) != 1:
            return
        i, t = nx[0]
        recv = tb.operand(t["args"][0])
        self.elem = ("some", tb.call_term(t))
        chain = recv[2] if isinstance(recv, tuple) and recv and recv[0] == "var" and len(recv) > 2 else recv
        self.info = {}
        res = iterator_chain(F, chain, info=self.info)
        if res is None:
            return
        self.source, el, pending, self.start, self.reversed = res
        SRC_E, SRC_I = ("elem", self.source), ("eidx", self.source)
        # vocabulary of the loop body
        B = self.elem
        if isinstance(el, tuple) and el and el[0] == "tuple":
            comps = list(el[1])
        else:
            comps = None
        def to_B(term):
            def go(y):
                if y == SRC_E or y == SRC_I:
                    if comps is None:
                        return B if y == SRC_E else y
                    for k, cpt in enumerate(comps):
                        if cpt == y:
                            return ("field", B, str(k))
                    return y
                if isinstance(y, tuple):
                    return tuple(go(z) if isinstance(z, tuple) else z for z in y)
                return y
            return go(term)
        self.components = {str(k): to_B(cpt) for k, cpt in enumerate(comps)} if comps else {}
        # the component that carries the enumerate index, and whether that index is the element's position in the source
        self.index_component = next((str(k) for k, cpt in enumerate(comps or []) if cpt == SRC_I), None)
        self.index_misaligned_by = self.info.get("misaligned_by", [])
        self.guards = [(to_B(cond), kind, cid) for cond, kind, cid in pending]
        self.start_is_after = None
        self.ok = True

    def normalise(self, term):
        """compound components of the element (`elem.2` produced by a `.map(..)`) are replaced by what they stand for"""
        B = self.elem
        def go(y):
            if isinstance(y, tuple) and len(y) == 3 and y[0] == "field" and y[1] == B and y[2] in self.components:
                c = self.components[y[2]]
                if c != y:
                    return c
            if isinstance(y, tuple):
                return tuple(go(z) if isinstance(z, tuple) else z for z in y)
            return y
        return go(term)


KEYED_METHODS = ("get", "get_mut", "remove", "index", "index_mut", "insert", "entry", "contains_key", "get_unchecked")


def misaligned_index_keys(R, bodies):
    """Loops `for (k, x) in src.iter().filter(p).enumerate()` (or skip / skip_while / rev before the enumerate) whose index k is
    then used as a key or position (get / remove / index / insert / entry): k counts the elements that survived the earlier
    stages, not positions in `src`, so it addresses another element's entry as soon as one element is dropped.
    -> ([(body, block, callee, dropping stages)], number of enumerate indices used as keys that ARE source positions)"""
    out = []
    aligned = 0
    for b in bodies:
        tb = R.terms(b, 0)
        for h, bl in b.loops():
            p = loop_pipeline(b, tb, h)
            if p is None:
                p = _raw_enumerate(b, tb, h, bl)
            if p is None or p.index_component is None:
                continue
            idx = ("field", p.elem, p.index_component)
            for i, t in b.calls():
                # as a key / position of a std container, or handed to a workspace function (`ledger.add_acquisition(idx, ..)`
                # stores it as the lot's transaction index)
                if i not in bl or not (parse_callee(t["callee"])[2] in KEYED_METHODS or t["callee"] in R.F.bodies):
                    continue
                for a in t["args"][1:]:
                    term = tb.operand(a)
                    if any(x == idx for x in subterms(term)):
                        if p.index_misaligned_by:
                            out.append((b, i, t["callee"], list(p.index_misaligned_by)))
                        else:
                            aligned += 1
                        break
    return out, aligned


class _RawEnumerate:
    pass


DROPPING_STAGES = ("filter", "filter_map", "skip", "skip_while", "rev", "flat_map", "flatten", "step_by", "map_while")


def _raw_enumerate(b, tb, h, bl):
    """fallback for chains the Pipeline model does not read (filter_map, flat_map, …): only the question "is the loop variable
    `(index, item)` of an `enumerate` that stands after a dropping stage" is answered"""
    nx = [(i, t) for i, t in b.calls() if i in bl and parse_callee(t["callee"])[2] == "next" and t.get("target") is not None
          and b.term(t["target"])["k"] == "switch"]
    if len(nx) != 1:
        return None
    i, t = nx[0]
    tb0 = Terms(tb.facts, b, inline_depth=0)
    recv = tb0.operand(t["args"][0])
    x = recv[2] if isinstance(recv, tuple) and recv and recv[0] == "var" and len(recv) > 2 else recv
    stages = []
    while isinstance(x, tuple) and x and x[0] == "call" and x[2]:
        stages.append(parse_callee(x[1])[2])
        x = x[2][0]
    outer = [m for m in stages if m not in ("iter", "into_iter", "by_ref", "copied", "cloned", "iter_mut", "peekable", "fuse")]
    if not outer or outer[0] != "enumerate":
        return None
    r = _RawEnumerate()
    r.elem = ("some", tb.call_term(t))
    r.index_component = "0"
    r.index_misaligned_by = [m for m in outer[1:] if m in DROPPING_STAGES]
    return r


def loop_pipeline(b, tb, bb):
    """Pipeline of the innermost iterator-driven loop of b containing block bb (None when bb is in no such loop)"""
    inner = [(h, bl) for h, bl in b.loops() if bb in bl]
    if not inner:
        return None
    h, bl = min(inner, key=lambda x: len(x[1]))
    _PIPE_CACHE = getattr(tb.facts, "_pipe_memo", None)
    if _PIPE_CACHE is None:
        _PIPE_CACHE = tb.facts._pipe_memo = {}
    key = (b.id, h)
    if key not in _PIPE_CACHE:
        try:
            p = Pipeline(tb.facts, b, Terms(tb.facts, b, inline_depth=0), h, bl)
        except Exception:
            p = None
        _PIPE_CACHE[key] = p if p is not None and p.ok else None
    return _PIPE_CACHE[key]


def guards_of(b, tb, bb):
    """(cond term, value-on-this-path, where) for every switch edge that edge-dominates block bb, plus the filtering closures
    of the iterator chain feeding the loop around bb (see Pipeline): `where` is the switch block, or ('pipeline', kind)"""
    out = []
    for s in b.reachable():
        t = b.term(s)
        if t["k"] != "switch":
            continue
        for tgt in b.succ(s):
            if tgt == s:
                continue
            if b.edge_dominates((s, tgt), bb):
                vals = [v for v, x in t["targets"] if x == tgt]
                val = vals[0] if vals else "otherwise"
                out.append((tb.operand(t["discr"]), val, s))
    p = loop_pipeline(b, tb, bb)
    if p is not None:
        for cond, kind, cid in p.guards:
            out.append((cond, "1", ("pipeline", kind)))
    return out


def eq_guard(cond, val):
    """(lhs, rhs) when passing this switch edge establishes lhs == rhs: the true edge of `==` or the false edge of `!=`;
    a disjunction of `!=` tests left on its false edge (`if a != b || c != d { return }`) yields each equality in turn
    because MIR lowers `||` to one switch per operand"""
    if isinstance(cond, tuple) and cond and cond[0] == "cmp":
        if cond[1] == "Eq" and truth(val):
            return cond[2], cond[3]
        if cond[1] == "Ne" and not truth(val):
            return cond[2], cond[3]
    return None


def truth(val):
    """switch on bool: explicit '0' target is the false edge; otherwise-edge is true"""
    return val != "0"
