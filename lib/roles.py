"""Structural discovery of roles in the matcher (DESIGN.md App. A). No private names are used as anchors:
roles are found from public model types (Match, MatchRule, Section104Holding, AcquisitionLot, Operation) and
std/dependency callees; private names only appear in reports."""
from mir import (Terms, RoleError, parse_callee, show, op_place, op_const, place_proj, subterms, is_decimal_arith_assign,
                 calls_in)
from flow import root_of_operand, is_slice_sort
import panics as P

RULES = ("SameDay", "BedAndBreakfast", "Section104")
MATCH = "cgt_core::models::Match"
POOL = "cgt_core::models::Section104Holding"
LOT = "cgt_core::matcher::acquisition_ledger::AcquisitionLot"


def is_agg(t, adt_suffix=None):
    return isinstance(t, tuple) and t and t[0] == "agg" and (adt_suffix is None or t[1].endswith(adt_suffix))


def agg_fields(t):
    return dict(t[3])


def match_aggs_in_term(t):
    return [x for x in subterms(t) if is_agg(x, "models::Match") and "rule" in agg_fields(x)]


def rule_of(match_term):
    r = agg_fields(match_term).get("rule")
    if is_agg(r, "MatchRule"):
        return r[2]
    return None


class Roles:
    def __init__(self, F, depth=2):
        self.F = F
        self.depth = depth
        self.bodies = [b for b in F.bodies.values() if b.crate == "cgt_core" and "::matcher::" in b.id and P.user_written(F, b)]
        self._terms = {}
        self.legs = {}          # rule -> (body, [(bb, MatchResult-or-Match term, site)])
        self.helpers = set()
        self._find_legs()
        self.cascade = self._find_cascade()
        self.dayloop = self._find_dayloop()
        self.prepass = self._find_prepass()
        self.canon = self._find_canon()

    def terms(self, b, depth=None):
        d = self.depth if depth is None else depth
        k = (b.id, d)
        if k not in self._terms:
            self._terms[k] = Terms(self.F, b, inline_depth=d)
        return self._terms[k]

    # ---- leg producers
    def match_sites(self, b):
        """(bb, term, site) for every Match/MatchResult value built in b, directly or through an inlined helper"""
        tb = self.terms(b)
        out = []
        for i, si, s in b.assigns():
            rv = s["rv"]
            if rv["k"] == "agg" and rv["adt"] == MATCH:
                out.append((i, tb.rvalue(rv), b.loc(s["sp"]), "direct"))
        for i, t in b.calls():
            if t["callee"] in self.F.bodies and t["callee"] not in (b.id,):
                term = tb.call_term(t)
                for m in match_aggs_in_term(term):
                    out.append((i, m, b.loc(t["sp"]), "via:" + t["callee"]))
        return out

    def _find_legs(self):
        direct = {}
        for b in self.bodies:
            for i, term, site, how in self.match_sites(b):
                r = rule_of(term)
                if r in RULES:
                    direct.setdefault(r, []).append((b, i, term, site, how))
        # a body in which the legs of two or more rules are visible is the cascade (or above it), not a leg producer
        seen_rules = {}
        for r, cs in direct.items():
            for c in cs:
                seen_rules.setdefault(c[0].id, set()).add(r)
        multi = {bid for bid, rs in seen_rules.items() if len(rs) >= 2}

        def pure_builder(b):
            """only assembles the value: no `&mut` parameter and no in-place Decimal arithmetic"""
            if any(b.local_ty(k + 1).startswith("&mut ") or b.local_ty(k + 1).startswith("&'_ mut ") for k in range(b.argc)):
                return False
            return not any(is_decimal_arith_assign(t["callee"]) for _, t in b.calls())
        for r in RULES:
            cands = [c for c in direct.get(r, []) if c[0].id not in multi] or direct.get(r, [])
            if not cands:
                continue
            # the producer is the innermost function that does more than assemble the value: drop pure builders, then
            # drop every candidate that merely obtains the leg from another remaining candidate
            pool = [c for c in cands if not pure_builder(c[0])] or cands
            pool_ids = {c[0].id for c in pool}
            pick = [c for c in pool if not (c[4].startswith("via:") and c[4][4:] in pool_ids and c[4][4:] != c[0].id)] or pool
            b = pick[0][0]
            self.legs[r] = (b, [(c[1], c[2], c[3]) for c in pick if c[0].id == b.id])
            for c in pick:
                if c[0].id == b.id and c[4].startswith("via:"):
                    self.helpers.add(c[4][4:])

    def leg(self, r):
        if r not in self.legs:
            raise RoleError(f"no function builds Match {{ rule: MatchRule::{r}, .. }} in the matcher module")
        return self.legs[r]

    # ---- cascade / day loop / pre-pass / canonicaliser
    def _callees_within(self, b, n):
        seen = {b.id}
        frontier = {b.id}
        for _ in range(n):
            nxt = set()
            for x in frontier:
                for y in self.F.callgraph().get(x, ()):
                    if y in self.F.bodies and y not in seen:
                        seen.add(y)
                        nxt.add(y)
            frontier = nxt
        return seen

    def _find_cascade(self):
        leg_ids = {v[0].id for v in self.legs.values()}
        if len(self.legs) < 3:
            return None
        c = []
        for b in self.bodies:
            if b.id in leg_ids or b.id in self.helpers:
                continue
            direct = {t["callee"] for _, t in b.calls()}
            if leg_ids <= direct:
                c.append(b)
        if len(c) != 1:
            # fall back: reachable within two calls, pick the one with the smallest reach
            c2 = [b for b in self.bodies if b.id not in leg_ids and leg_ids <= self._callees_within(b, 2)]
            c2.sort(key=lambda b: len(self._callees_within(b, 2)))
            return c2[0] if c2 else None
        return c[0]

    def _find_dayloop(self):
        if self.cascade is None:
            return None
        for b in self.bodies:
            for i, t in b.calls():
                if t["callee"] == self.cascade.id and b.in_loop(i):
                    return b
        return None

    def _find_prepass(self):
        """the callee of the day loop from which a writer of lot.cost_offset is reachable (through helpers)"""
        if self.dayloop is None:
            return None
        writers = {w[0].parent or w[0].id for w in self.field_writes(LOT, "cost_offset") if w[2] != "construct"}
        out = []
        for i, t in self.dayloop.calls():
            cb = self.F.bodies.get(t["callee"])
            if cb is None or cb not in self.bodies or (self.cascade is not None and cb.id == self.cascade.id):
                continue
            seen = self._callees_within(cb, 3)
            if seen & writers and cb.id not in [o.id for o in out]:
                out.append(cb)
        return out[0] if len(out) == 1 else None

    def _find_canon(self):
        if self.dayloop is None:
            return None
        for i, t in self.dayloop.calls():
            cb = self.F.bodies.get(t["callee"])
            if cb is not None and any(is_slice_sort(u["callee"]) for _, u in cb.calls()):
                return cb
        return None

    def role_ids(self):
        ids = {v[0].id for v in self.legs.values()} | set(self.helpers)
        for n in ("cascade", "prepass", "canon"):
            v = getattr(self, n)
            if v is not None:
                ids.add(v.id)
        return ids

    def region(self, root, depth=2, extra_stop=()):
        return Region(self, root, depth, stop=(self.role_ids() - {root.id}) | set(extra_stop))

    def require(self, name):
        v = getattr(self, name)
        if v is None:
            raise RoleError(f"role {name.upper()} not resolved")
        return v

    # ---- shared helpers
    def field_writes(self, adt, field, bodies=None):
        """(body, bb, kind, site, rhs-term) for every write to `adt.field`: compound assignment, direct assignment,
        or construction with a non-zero value"""
        out = []
        for b in (bodies or [x for x in self.F.bodies.values() if x.crate.startswith("cgt_") and P.user_written(self.F, x)]):
            tb = None
            for i, t in b.calls():
                k = is_decimal_arith_assign(t["callee"])
                if k and t["args"]:
                    p = op_place(t["args"][0])
                    if p is None:
                        continue
                    # arg0 is &mut place: resolve the reference
                    tgt = self._ref_target(b, p)
                    if tgt and tgt[0] == adt and tgt[1] == field:
                        tb = tb or self.terms(b)
                        out.append((b, i, k, b.loc(t["sp"]), tb.operand(t["args"][1])))
            for i, si, s in b.assigns():
                lhs = s["lhs"]
                lf = _last_named_field(lhs)
                if lf and lf.get("adt") == adt and lf.get("n") == field:
                    tb = tb or self.terms(b)
                    out.append((b, i, "assign", b.loc(s["sp"]), tb.rvalue(s["rv"])))
                rv = s["rv"]
                if rv["k"] == "agg" and rv["adt"] == adt and field in rv["fields"]:
                    tb = tb or self.terms(b)
                    val = tb.operand(rv["ops"][rv["fields"].index(field)])
                    out.append((b, i, "construct", b.loc(s["sp"]), val))
        return out

    def _ref_target(self, b, p, depth=0):
        """for a local holding &mut X.f: return (adt of X, f)"""
        if place_proj(p):
            lf = _last_named_field(p)
            if lf:
                return (lf.get("adt"), lf.get("n"))
        if depth > 6:
            return None
        ds = b.defs().get(p["l"], [])
        if len(ds) != 1 or ds[0][0] != "assign":
            return None
        rv = ds[0][3]["rv"]
        if rv["k"] in ("ref", "rawptr"):
            lf = _last_named_field(rv["p"])
            if lf:
                return (lf.get("adt"), lf.get("n"))
            return self._ref_target(b, {"l": rv["p"]["l"]}, depth + 1) if not _has_field(rv["p"]) else None
        if rv["k"] == "use":
            q = op_place(rv["op"])
            if q is not None:
                return self._ref_target(b, q, depth + 1)
        return None


class Region:
    """A root body seen together with the helpers it delegates to: same-crate, user-written functions that are not
    themselves roles (`stop`), reachable within `depth` calls, plus the closures created on the way. Every item
    remembers the block of the ROOT from which it is reached (`root_bb`) and a converter that rewrites a term of
    the helper's context into the root's context (parameter / captured-variable substitution). Extracting a helper,
    or turning a loop into `iter().for_each(..)`, therefore does not hide a call from a rule."""

    def __init__(self, R, root, depth=2, stop=(), ledger=False):
        self.R = R
        self.ledger = ledger or root.id.startswith("cgt_core::matcher::acquisition_ledger::")
        self.F = R.F
        self.root = root
        self.stop = set(stop)
        self.items = []      # dicts: body, bb, term, root_bb, conv, tb, path
        self.bodies = {root.id: root}
        self.convs = {}
        self.expansions = []
        self._closures_done = set()
        self._expand(root, None, lambda t: t, depth, (root.short,))

    def _is_helper(self, h):
        if h is None or h.id in self.stop or h.id == self.root.id:
            return False
        if h.crate != self.root.crate or h.kind not in ("fn", "method"):
            return False
        if not P.user_written(self.F, h):
            return False
        if h.id.startswith("cgt_core::matcher::acquisition_ledger::") and not self.ledger:
            return False
        return True

    def _expand(self, body, root_bb, conv, d, path, via=None):
        from mir import subst
        tb = self.R.terms(body, 0)
        self.convs[body.id] = conv
        ex = dict(body=body, conv=conv, root_bb=root_bb, path=path, tb=tb, via=via)
        self.expansions.append(ex)
        for i, t in body.calls():
            rb = root_bb if root_bb is not None else i
            it = dict(body=body, bb=i, term=t, root_bb=rb, conv=conv, tb=tb, path=path, ex=ex)
            self.items.append(it)
            h = self.F.bodies.get(t["callee"])
            # a helper is expanded once per call site (its parameters differ from site to site); recursion is cut by `path`
            if d > 0 and self._is_helper(h) and h.short not in path and len(self.expansions) < 400:
                args_terms = [conv(tb.operand(a)) for a in t["args"]]
                self.bodies[h.id] = h
                self._expand(h, rb, (lambda term, A=args_terms: subst(term, A)), d - 1, path + (h.short,), via=it)
        for i, si, s in body.assigns():
            rv = s["rv"]
            if rv["k"] == "closure" and rv["id"] in self.F.bodies and (rv["id"], path) not in self._closures_done:
                self._closures_done.add((rv["id"], path))
                cb = self.F.bodies[rv["id"]]
                caps = [conv(tb.operand(o)) for o in rv["ops"]]
                rb = root_bb if root_bb is not None else i
                self.bodies[cb.id] = cb

                def cconv(term, caps=caps, cid=cb.id):
                    def sub(x):
                        if not isinstance(x, tuple) or not x:
                            return x
                        if x[0] == "field" and isinstance(x[1], tuple) and x[1] and x[1][0] == "param" and x[1][1] == 0:
                            try:
                                return caps[int(x[2])]
                            except (ValueError, IndexError):
                                return x
                        if x[0] == "param" and x[1] >= 1:
                            # the closure's own parameters must not be mistaken for the root's
                            return ("cparam", cid, x[1], x[2] if len(x) > 2 else None)
                        return tuple(sub(y) if isinstance(y, tuple) else y for y in x)
                    return sub(term)
                self._expand(cb, rb, cconv, d, path + (cb.id,), via=dict(body=body, bb=i, closure=cb.id, ex=ex))

    def calls(self, pred):
        for it in self.items:
            if pred(it["term"]["callee"]):
                yield it

    def arg(self, it, k):
        """k-th argument of the call, as a term of the ROOT's context"""
        return it["conv"](it["tb"].operand(it["term"]["args"][k]))

    def local_args(self, it):
        return [it["tb"].operand(a) for a in it["term"]["args"]]


def _has_field(p):
    return any(isinstance(e, dict) and "f" in e for e in place_proj(p))


def _last_named_field(p):
    for e in reversed(place_proj(p)):
        if isinstance(e, dict) and "f" in e:
            return e if "n" in e else None
        if e == "deref":
            continue
        if isinstance(e, dict) and "dc" in e:
            continue
        break
    return None


def sell_time_ratio(q):
    """Match.quantity of a 30-day leg has the form min(remaining, available ÷ R): return (remaining, available, R) or None"""
    if isinstance(q, tuple) and q and q[0] == "call" and parse_callee(q[1])[2] == "min" and len(q[2]) == 2:
        a, c = q[2]
        for rem, div in ((a, c), (c, a)):
            if isinstance(div, tuple) and div and div[0] == "/" and isinstance(rem, tuple) and rem and rem[0] == "param":
                return rem, div[1], div[2]
    return None


def times_ratio(term, q, r):
    """term == q × r (as a normalised product)"""
    from mir import mk_mul
    return term == mk_mul([q, r])


def guards_of(b, tb, bb):
    """(cond term, value-on-this-path) for every switch edge that edge-dominates block bb"""
    out = []
    for s in b.reachable():
        t = b.term(s)
        if t["k"] != "switch":
            continue
        for tgt in b.succ(s):
            if tgt == s:
                continue
            if b.edge_dominates((s, tgt), bb):
                vals = [v for v, x in t["targets"] if x == tgt]
                val = vals[0] if vals else "otherwise"
                out.append((tb.operand(t["discr"]), val, s))
    return out


def truth(val):
    """switch on bool: explicit '0' target is the false edge; otherwise-edge is true"""
    return val != "0"
