"""String classifiers: a function that compares one string with several constant literals and returns a value per arm
(`match action { "Deposit" | "Lapse" => Vesting, "Wire Transfer" => NonVesting, _ => Unknown }`).

Rule decided here: EVERY LISTED LITERAL REACHES ITS OWN ARM. For each literal L the function lists, the function is walked
with the scrutinee bound to L — only the string tests (`==` with a constant, `starts_with` / `ends_with` / `contains` with
a constant, `eq_ignore_ascii_case`) are evaluated, on constants; nothing of cgt-tool runs — and the value assigned to the
result on that walk must be the value assigned on the true edge of L's own comparison. A guard arm placed above
(`Some(s) if s.starts_with("Forced") => Vesting` above `"Forced Disbursement" => NonVesting`) shadows the literal: the
text still lists it under its class, the behaviour files it under another one."""
from mir import parse_callee, op_const

STR_EQ = "PartialEq for str>::eq"


def _const_str(a):
    k = a.get("k") if isinstance(a, dict) else None
    if isinstance(k, dict) and "str" in k:
        return k["str"]
    return None


def _test_of(t):
    """(kind, literal) when the call is a string test against a constant"""
    cal = t["callee"]
    args = t.get("args") or []
    lits = [_const_str(a) for a in args]
    lit = next((x for x in lits if x is not None), None)
    if lit is None:
        return None
    if STR_EQ in cal or ("PartialEq" in cal and "str" in cal and cal.endswith("::eq")):
        return ("eq", lit)
    if STR_EQ.replace("::eq", "::ne") in cal or ("PartialEq" in cal and "str" in cal and cal.endswith("::ne")):
        return ("ne", lit)
    m = parse_callee(cal)[2]
    if "str" in cal and m in ("starts_with", "ends_with", "contains", "eq_ignore_ascii_case"):
        return (m, lit)
    return None


def _eval(kind, lit, s):
    if kind == "eq":
        return s == lit
    if kind == "ne":
        return s != lit
    if kind == "starts_with":
        return s.startswith(lit)
    if kind == "ends_with":
        return s.endswith(lit)
    if kind == "contains":
        return lit in s
    if kind == "eq_ignore_ascii_case":
        return s.lower() == lit.lower()
    return None


def _result_rv(b, bb):
    """the rvalue assigned to the return place in block bb (None if the block does not assign it)"""
    out = None
    for s in b.stmts(bb):
        if s.get("lhs", {}).get("l") == 0 and not s["lhs"].get("p"):
            out = s["rv"]
    return out


def _rv_key(rv):
    if rv is None:
        return None
    if rv["k"] == "agg":
        return ("agg", rv.get("adt"), rv.get("variant"), len(rv.get("ops") or []))
    return (rv["k"], repr(rv)[:200])


def _walk(b, start, s, known):
    """follow the CFG from block `start` with the scrutinee bound to the string s; returns the set of result keys reached.
    `known` maps locals to booleans computed from string tests. Unknown switches: an Option discriminant takes the Some edge
    (a present string is being classified); any other unknown switch forks."""
    results = set()
    seen = set()
    work = [(start, dict(known))]
    option_discr = {}
    for bi, si, st in b.assigns():
        if st["rv"]["k"] == "discr" and "Option" in b.local_ty(st["rv"]["p"]["l"]):
            option_discr[st["lhs"]["l"]] = True
    steps = 0
    while work and steps < 4000:
        steps += 1
        bb, kn = work.pop()
        key = (bb, tuple(sorted((str(a), str(v)) for a, v in kn.items())))
        if key in seen:
            continue
        seen.add(key)
        rv = _result_rv(b, bb)
        t = b.term(bb)
        if rv is not None:
            kn = dict(kn)
            kn["_res"] = _rv_key(rv)
        k = t["k"]
        if k == "return":
            results.add(kn.get("_res"))
            continue
        if k == "call":
            tst = _test_of(t)
            kn2 = dict(kn)
            d = t.get("dest")
            if d is not None and not d.get("p"):
                if tst:
                    kn2[d["l"]] = _eval(tst[0], tst[1], s)
                else:
                    kn2.pop(d["l"], None)
                    if d["l"] == 0:
                        kn2["_res"] = ("call", t["callee"][:80])
            if t.get("target") is not None:
                work.append((t["target"], kn2))
            continue
        if k == "switch":
            dl = t["discr"].get("c", t["discr"].get("m", {})) if isinstance(t["discr"], dict) else {}
            l = dl.get("l") if isinstance(dl, dict) and not dl.get("p") else None
            # bool copies: `_5 = copy _4` are rare at opt-level 0 for call results; handled by direct lookup only
            if l in kn and isinstance(kn[l], bool):
                want = "1" if kn[l] else "0"
                tg = [x for v, x in t["targets"] if v == want]
                nxt = tg[0] if tg else t.get("otherwise")
                if nxt is not None:
                    work.append((nxt, kn))
                continue
            if l in option_discr:
                tg = [x for v, x in t["targets"] if v == "1"]
                nxt = tg[0] if tg else t.get("otherwise")
                work.append((nxt, kn))
                continue
            for nxt in b.succ(bb):
                work.append((nxt, kn))
            continue
        for nxt in b.succ(bb):
            work.append((nxt, kn))
    return results


def classifier_sites(b, min_literals=3):
    """[(block, literal)] of `==` tests against constants, if the body lists at least `min_literals` of them"""
    out = []
    for i, t in b.calls():
        tst = _test_of(t)
        if tst and tst[0] == "eq":
            out.append((i, tst[1], t))
    return out if len(out) >= min_literals else []


def shadowed_literals(b, min_literals=3):
    """-> (n literals judged, [(literal, site, own result, actual results)]) for literals that do not reach their own arm"""
    sites = classifier_sites(b, min_literals)
    bad = []
    n = 0
    for i, lit, t in sites:
        d = t.get("dest")
        if d is None or d.get("p") or t.get("target") is None:
            continue
        own = _walk(b, t["target"], lit, {d["l"]: True})
        own = {x for x in own if x is not None}
        if len(own) != 1:
            continue        # the arm's value is not a plain constant per arm: not a classifier of this shape
        n += 1
        actual = {x for x in _walk(b, 0, lit, {}) if x is not None}
        if actual and actual != own:
            bad.append((lit, b.loc(t["sp"]), sorted(map(str, own)), sorted(map(str, actual))))
    return n, bad
