//! srcfacts — syntax-level facts that do not survive into MIR.
//!
//! * the pest grammar, parsed by pest's own meta parser (`pest_meta`), as a JSON AST;
//! * every `match_nodes!` invocation in the given Rust files: the token patterns of each
//!   arm and the struct-literal(s) built in the arm body (path + field -> expression text);
//! * every plain `match` in the same impl whose arms are `Rule::x` paths (the hand-written
//!   list consumer), with "body is empty" per arm.
//!
//! Nothing is executed. Usage: srcfacts <grammar.pest> <file.rs>...   (JSON on stdout)

use pest_meta::ast::{Expr, RuleType};
use pest_meta::parser::{self, Rule};
use proc_macro2::{Delimiter, TokenStream, TokenTree};
use serde_json::{json, Value};
use syn::visit::Visit;

fn expr_json(e: &Expr) -> Value {
    match e {
        Expr::Str(s) => json!({"k":"str","s":s}),
        Expr::Insens(s) => json!({"k":"insens","s":s}),
        Expr::Range(a, b) => json!({"k":"range","a":a,"b":b}),
        Expr::Ident(s) => json!({"k":"ident","s":s}),
        Expr::PeekSlice(a, b) => json!({"k":"peek","a":a,"b":b}),
        Expr::PosPred(x) => json!({"k":"pos","e":expr_json(x)}),
        Expr::NegPred(x) => json!({"k":"neg","e":expr_json(x)}),
        Expr::Seq(a, b) => json!({"k":"seq","a":expr_json(a),"b":expr_json(b)}),
        Expr::Choice(a, b) => json!({"k":"choice","a":expr_json(a),"b":expr_json(b)}),
        Expr::Opt(x) => json!({"k":"opt","e":expr_json(x)}),
        Expr::Rep(x) => json!({"k":"rep","e":expr_json(x),"min":0,"max":null}),
        Expr::RepOnce(x) => json!({"k":"rep","e":expr_json(x),"min":1,"max":null}),
        Expr::RepExact(x, n) => json!({"k":"rep","e":expr_json(x),"min":n,"max":n}),
        Expr::RepMin(x, n) => json!({"k":"rep","e":expr_json(x),"min":n,"max":null}),
        Expr::RepMax(x, n) => json!({"k":"rep","e":expr_json(x),"min":0,"max":n}),
        Expr::RepMinMax(x, a, b) => json!({"k":"rep","e":expr_json(x),"min":a,"max":b}),
        Expr::Skip(v) => json!({"k":"skip","v":v}),
        Expr::Push(x) => json!({"k":"push","e":expr_json(x)}),
    }
}

fn grammar_json(path: &str) -> Value {
    let src = match std::fs::read_to_string(path) {
        Ok(s) => s,
        Err(e) => return json!({"error": format!("read {path}: {e}")}),
    };
    let pairs = match parser::parse(Rule::grammar_rules, &src) {
        Ok(p) => p,
        Err(e) => return json!({"error": format!("grammar does not parse: {e}")}),
    };
    let rules = match parser::consume_rules(pairs) {
        Ok(r) => r,
        Err(es) => {
            return json!({"error": format!("grammar invalid: {}", es.iter().map(|e| e.to_string()).collect::<Vec<_>>().join("; "))})
        }
    };
    let out: Vec<Value> = rules
        .iter()
        .map(|r| {
            let ty = match r.ty {
                RuleType::Normal => "normal",
                RuleType::Silent => "silent",
                RuleType::Atomic => "atomic",
                RuleType::CompoundAtomic => "compound_atomic",
                RuleType::NonAtomic => "non_atomic",
            };
            json!({"name": r.name, "ty": ty, "expr": expr_json(&r.expr)})
        })
        .collect();
    json!({"file": path, "rules": out})
}

// ------------------------------------------------------------------ rust side

fn ts_string(ts: &TokenStream) -> String {
    ts.to_string()
}

/// split a token stream at top-level `,`
fn split_commas(ts: TokenStream) -> Vec<Vec<TokenTree>> {
    let mut out = vec![Vec::new()];
    for tt in ts {
        match &tt {
            TokenTree::Punct(p) if p.as_char() == ',' => out.push(Vec::new()),
            _ => out.last_mut().unwrap().push(tt),
        }
    }
    if out.last().map(|v| v.is_empty()).unwrap_or(false) {
        out.pop();
    }
    out
}

struct StructLits(Vec<Value>);
impl<'ast> Visit<'ast> for StructLits {
    fn visit_expr_struct(&mut self, e: &'ast syn::ExprStruct) {
        let path = e
            .path
            .segments
            .iter()
            .map(|s| s.ident.to_string())
            .collect::<Vec<_>>()
            .join("::");
        let mut fields = serde_json::Map::new();
        for f in &e.fields {
            let name = match &f.member {
                syn::Member::Named(i) => i.to_string(),
                syn::Member::Unnamed(i) => i.index.to_string(),
            };
            let ex = &f.expr;
            fields.insert(name, json!(quote_expr(ex)));
        }
        self.0.push(json!({"path": path, "fields": fields, "rest": e.rest.is_some()}));
        syn::visit::visit_expr_struct(self, e);
    }
}

fn quote_expr(e: &syn::Expr) -> String {
    // token text without whitespace normalisation issues
    use syn::__private::ToTokens;
    e.to_token_stream().to_string()
}


// ---------------------------------------------------------------------------- Rust expression / pattern AST (JSON)

fn path_str(p: &syn::Path) -> String {
    p.segments.iter().map(|s| s.ident.to_string()).collect::<Vec<_>>().join("::")
}

fn rpat_json(p: &syn::Pat) -> Value {
    use syn::__private::ToTokens;
    match p {
        syn::Pat::Ident(i) => json!({"k":"id","s":i.ident.to_string()}),
        syn::Pat::Wild(_) => json!({"k":"wild"}),
        syn::Pat::Tuple(t) => json!({"k":"tuple","e":t.elems.iter().map(rpat_json).collect::<Vec<_>>()}),
        syn::Pat::TupleStruct(t) => json!({"k":"ts","path":path_str(&t.path),"e":t.elems.iter().map(rpat_json).collect::<Vec<_>>()}),
        syn::Pat::Path(pp) => json!({"k":"path","s":path_str(&pp.path)}),
        syn::Pat::Reference(r) => rpat_json(&r.pat),
        syn::Pat::Type(t) => rpat_json(&t.pat),
        syn::Pat::Paren(t) => rpat_json(&t.pat),
        syn::Pat::Lit(l) => json!({"k":"lit","s":l.to_token_stream().to_string()}),
        syn::Pat::Or(o) => json!({"k":"or","e":o.cases.iter().map(rpat_json).collect::<Vec<_>>()}),
        other => json!({"k":"other","s":other.to_token_stream().to_string()}),
    }
}

fn rblock_json(b: &syn::Block) -> Value {
    let mut stmts: Vec<Value> = Vec::new();
    let mut tail = Value::Null;
    let n = b.stmts.len();
    for (i, s) in b.stmts.iter().enumerate() {
        match s {
            syn::Stmt::Local(l) => {
                let (e, els) = match &l.init {
                    Some(init) => (rexpr_json(&init.expr), init.diverge.as_ref().map(|(_, d)| rexpr_json(d)).unwrap_or(Value::Null)),
                    None => (Value::Null, Value::Null),
                };
                stmts.push(json!({"k":"let","p":rpat_json(&l.pat),"e":e,"else":els}));
            }
            syn::Stmt::Expr(e, semi) => {
                if i + 1 == n && semi.is_none() {
                    tail = rexpr_json(e);
                } else {
                    stmts.push(json!({"k":"expr","e":rexpr_json(e)}));
                }
            }
            syn::Stmt::Macro(m) => {
                let v = rmacro_json(&m.mac);
                if i + 1 == n && m.semi_token.is_none() {
                    tail = v;
                } else {
                    stmts.push(json!({"k":"expr","e":v}));
                }
            }
            syn::Stmt::Item(_) => stmts.push(json!({"k":"item"})),
        }
    }
    json!({"k":"block","s":stmts,"t":tail})
}

fn rmacro_json(m: &syn::Macro) -> Value {
    let name = m.path.segments.last().map(|s| s.ident.to_string()).unwrap_or_default();
    if name == "match_nodes" {
        return json!({"k":"match_nodes","mn":parse_match_nodes(m)});
    }
    json!({"k":"macro","name":name,"tokens":ts_string(&m.tokens)})
}

fn rexpr_json(e: &syn::Expr) -> Value {
    use syn::__private::ToTokens;
    match e {
        syn::Expr::Lit(l) => json!({"k":"lit","s":l.to_token_stream().to_string()}),
        syn::Expr::Path(p) => json!({"k":"path","s":path_str(&p.path)}),
        syn::Expr::Tuple(t) => json!({"k":"tuple","e":t.elems.iter().map(rexpr_json).collect::<Vec<_>>()}),
        syn::Expr::Array(t) => json!({"k":"array","e":t.elems.iter().map(rexpr_json).collect::<Vec<_>>()}),
        syn::Expr::Struct(s) => {
            let fields: Vec<Value> = s.fields.iter().map(|f| {
                let name = match &f.member {
                    syn::Member::Named(i) => i.to_string(),
                    syn::Member::Unnamed(i) => i.index.to_string(),
                };
                json!([name, rexpr_json(&f.expr)])
            }).collect();
            json!({"k":"struct","path":path_str(&s.path),"fields":fields,"rest":s.rest.as_ref().map(|r| rexpr_json(r)).unwrap_or(Value::Null)})
        }
        syn::Expr::Call(c) => json!({"k":"call","f":rexpr_json(&c.func),"a":c.args.iter().map(rexpr_json).collect::<Vec<_>>()}),
        syn::Expr::MethodCall(c) => json!({"k":"mcall","r":rexpr_json(&c.receiver),"m":c.method.to_string(),"a":c.args.iter().map(rexpr_json).collect::<Vec<_>>()}),
        syn::Expr::Closure(c) => json!({"k":"closure","p":c.inputs.iter().map(rpat_json).collect::<Vec<_>>(),"b":rexpr_json(&c.body)}),
        syn::Expr::Block(b) => rblock_json(&b.block),
        syn::Expr::Reference(r) => rexpr_json(&r.expr),
        syn::Expr::Paren(r) => rexpr_json(&r.expr),
        syn::Expr::Group(r) => rexpr_json(&r.expr),
        syn::Expr::Unary(u) => match u.op {
            syn::UnOp::Deref(_) => rexpr_json(&u.expr),
            _ => json!({"k":"un","op":u.op.to_token_stream().to_string(),"e":rexpr_json(&u.expr)}),
        },
        syn::Expr::Binary(b) => json!({"k":"bin","op":b.op.to_token_stream().to_string(),"a":rexpr_json(&b.left),"b":rexpr_json(&b.right)}),
        syn::Expr::Field(f) => json!({"k":"field","e":rexpr_json(&f.base),"m":f.member.to_token_stream().to_string()}),
        syn::Expr::Try(t) => json!({"k":"try","e":rexpr_json(&t.expr)}),
        syn::Expr::Return(r) => json!({"k":"return","e":r.expr.as_ref().map(|x| rexpr_json(x)).unwrap_or(Value::Null)}),
        syn::Expr::Macro(m) => rmacro_json(&m.mac),
        syn::Expr::If(i) => json!({"k":"if","c":rexpr_json(&i.cond),"t":rblock_json(&i.then_branch),
                                   "e":i.else_branch.as_ref().map(|(_, x)| rexpr_json(x)).unwrap_or(Value::Null)}),
        syn::Expr::Let(l) => json!({"k":"letcond","p":rpat_json(&l.pat),"e":rexpr_json(&l.expr)}),
        syn::Expr::Match(m) => json!({"k":"match","e":rexpr_json(&m.expr),"arms":m.arms.iter().map(|a| json!({
            "p":rpat_json(&a.pat),"g":a.guard.as_ref().map(|(_, g)| rexpr_json(g)).unwrap_or(Value::Null),"b":rexpr_json(&a.body)})).collect::<Vec<_>>()}),
        syn::Expr::Cast(c) => rexpr_json(&c.expr),
        other => json!({"k":"other","s":other.to_token_stream().to_string()}),
    }
}

fn parse_match_nodes(mac: &syn::Macro) -> Value {
    // <expr> ; [pat] => body , [pat] => body , ...
    let mut head: Vec<TokenTree> = Vec::new();
    let mut rest: Vec<TokenTree> = Vec::new();
    let mut seen_semi = false;
    for tt in mac.tokens.clone() {
        if !seen_semi {
            if let TokenTree::Punct(p) = &tt {
                if p.as_char() == ';' {
                    seen_semi = true;
                    continue;
                }
            }
            head.push(tt);
        } else {
            rest.push(tt);
        }
    }
    let mut arms: Vec<Value> = Vec::new();
    let mut i = 0;
    while i < rest.len() {
        // pattern group
        let pat = match &rest[i] {
            TokenTree::Group(g) if g.delimiter() == Delimiter::Bracket => g.stream(),
            _ => {
                i += 1;
                continue;
            }
        };
        let line = rest[i].span().start().line;
        i += 1;
        // expect =>
        let mut ok = false;
        if i + 1 < rest.len() {
            if let (TokenTree::Punct(a), TokenTree::Punct(b)) = (&rest[i], &rest[i + 1]) {
                if a.as_char() == '=' && b.as_char() == '>' {
                    ok = true;
                }
            }
        }
        if !ok {
            continue;
        }
        i += 2;
        // body: up to next top-level comma
        let mut body: Vec<TokenTree> = Vec::new();
        while i < rest.len() {
            if let TokenTree::Punct(p) = &rest[i] {
                if p.as_char() == ',' {
                    i += 1;
                    break;
                }
            }
            body.push(rest[i].clone());
            i += 1;
        }
        let body_ts: TokenStream = body.into_iter().collect();
        let mut lits = StructLits(Vec::new());
        let mut body_kind = "tokens";
        let mut body_ast = Value::Null;
        if let Ok(expr) = syn::parse2::<syn::Expr>(body_ts.clone()) {
            lits.visit_expr(&expr);
            body_kind = "expr";
            body_ast = rexpr_json(&expr);
        }
        // pattern elements
        let mut elems: Vec<Value> = Vec::new();
        for el in split_commas(pat) {
            // name ( binding ) [..]
            let mut name = String::new();
            let mut binding = String::new();
            let mut bind_ast = Value::Null;
            let mut variadic = false;
            let mut dots = 0;
            for tt in &el {
                match tt {
                    TokenTree::Ident(id) if name.is_empty() => name = id.to_string(),
                    TokenTree::Group(g) if g.delimiter() == Delimiter::Parenthesis => {
                        binding = ts_string(&g.stream());
                        use syn::parse::Parser;
                        if let Ok(p) = syn::Pat::parse_single.parse2(g.stream()) {
                            bind_ast = rpat_json(&p);
                        }
                    }
                    TokenTree::Punct(p) if p.as_char() == '.' => {
                        dots += 1;
                        if dots >= 2 {
                            variadic = true;
                        }
                    }
                    _ => {}
                }
            }
            elems.push(json!({"rule": name, "binding": binding, "bind_ast": bind_ast, "variadic": variadic}));
        }
        arms.push(json!({
            "line": line,
            "pattern": elems,
            "body": ts_string(&body_ts),
            "body_kind": body_kind,
            "body_ast": body_ast,
            "structs": lits.0,
        }));
    }
    json!({"input": ts_string(&head.into_iter().collect::<TokenStream>()), "arms": arms})
}

struct FnScan {
    macros: Vec<Value>,
    rule_matches: Vec<Value>,
    calls: Vec<String>,
    rule_filters: Vec<Value>,
}

/// `Rule::X` paths mentioned in an expression that also mentions `as_rule`, with the comparison operator
struct RuleCmp {
    eq: Vec<String>,
    ne: Vec<String>,
}
impl<'ast> Visit<'ast> for RuleCmp {
    fn visit_expr_binary(&mut self, b: &'ast syn::ExprBinary) {
        let l = quote_expr(&b.left);
        let r = quote_expr(&b.right);
        let (rule_side, other) = if l.replace(' ', "").starts_with("Rule::") { (l.clone(), r.clone()) } else { (r.clone(), l.clone()) };
        if rule_side.replace(' ', "").starts_with("Rule::") && other.contains("as_rule") {
            let name = rule_side.replace(' ', "")[6..].to_string();
            match b.op {
                syn::BinOp::Eq(_) => self.eq.push(name),
                syn::BinOp::Ne(_) => self.ne.push(name),
                _ => {}
            }
        }
        syn::visit::visit_expr_binary(self, b);
    }
    fn visit_macro(&mut self, m: &'ast syn::Macro) {
        let last = m.path.segments.last().map(|s| s.ident.to_string()).unwrap_or_default();
        if last == "matches" {
            let txt = ts_string(&m.tokens);
            if txt.contains("as_rule") {
                if let Some(pos) = txt.find(',') {
                    for alt in txt[pos + 1..].split('|') {
                        let a = alt.replace(' ', "");
                        if a.starts_with("Rule::") {
                            self.eq.push(a[6..].to_string());
                        }
                    }
                }
            }
        }
    }
}
impl<'ast> Visit<'ast> for FnScan {
    fn visit_macro(&mut self, m: &'ast syn::Macro) {
        let last = m.path.segments.last().map(|s| s.ident.to_string()).unwrap_or_default();
        if last == "match_nodes" {
            self.macros.push(parse_match_nodes(m));
        }
        syn::visit::visit_macro(self, m);
    }
    fn visit_expr_call(&mut self, c: &'ast syn::ExprCall) {
        if let syn::Expr::Path(p) = &*c.func {
            self.calls.push(p.path.segments.iter().map(|s| s.ident.to_string()).collect::<Vec<_>>().join("::"));
        }
        syn::visit::visit_expr_call(self, c);
    }
    fn visit_expr_method_call(&mut self, c: &'ast syn::ExprMethodCall) {
        let m = c.method.to_string();
        if m == "filter" || m == "filter_map" || m == "retain" || m == "skip_while" || m == "take_while" {
            let mut rc = RuleCmp { eq: Vec::new(), ne: Vec::new() };
            for a in &c.args {
                rc.visit_expr(a);
            }
            if !rc.eq.is_empty() || !rc.ne.is_empty() {
                self.rule_filters.push(json!({"method": m, "eq": rc.eq, "ne": rc.ne}));
            }
        }
        // functions passed by name (`.map(Self::transaction)`)
        for a in &c.args {
            if let syn::Expr::Path(p) = a {
                self.calls.push(p.path.segments.iter().map(|s| s.ident.to_string()).collect::<Vec<_>>().join("::"));
            }
        }
        syn::visit::visit_expr_method_call(self, c);
    }
    fn visit_expr_match(&mut self, m: &'ast syn::ExprMatch) {
        let mut arms: Vec<Value> = Vec::new();
        let mut any_rule = false;
        for a in &m.arms {
            let mut pats: Vec<String> = Vec::new();
            collect_pat_paths(&a.pat, &mut pats);
            if pats.iter().any(|p| p.starts_with("Rule::")) {
                any_rule = true;
            }
            let empty = match &*a.body {
                syn::Expr::Block(b) => b.block.stmts.is_empty(),
                syn::Expr::Tuple(t) => t.elems.is_empty(),
                _ => false,
            };
            arms.push(json!({"pats": pats, "empty_body": empty, "guard": a.guard.is_some(), "body": quote_expr(&a.body)}));
        }
        if any_rule {
            self.rule_matches.push(json!({"scrutinee": quote_expr(&m.expr), "arms": arms}));
        }
        syn::visit::visit_expr_match(self, m);
    }
}

fn collect_pat_paths(p: &syn::Pat, out: &mut Vec<String>) {
    match p {
        syn::Pat::Or(o) => {
            for c in &o.cases {
                collect_pat_paths(c, out);
            }
        }
        syn::Pat::Path(pp) => out.push(
            pp.path.segments.iter().map(|s| s.ident.to_string()).collect::<Vec<_>>().join("::"),
        ),
        syn::Pat::Wild(_) => out.push("_".into()),
        syn::Pat::Ident(i) => out.push(format!("ident:{}", i.ident)),
        other => {
            use syn::__private::ToTokens;
            out.push(format!("other:{}", other.to_token_stream()))
        }
    }
}

fn rust_file_json(path: &str) -> Value {
    let src = match std::fs::read_to_string(path) {
        Ok(s) => s,
        Err(e) => return json!({"file": path, "error": format!("read: {e}")}),
    };
    let file = match syn::parse_file(&src) {
        Ok(f) => f,
        Err(e) => return json!({"file": path, "error": format!("syn: {e}")}),
    };
    let mut fns: Vec<Value> = Vec::new();
    fn scan_fn(self_ty: &str, attrs: &[String], sig: &syn::Signature, block: &syn::Block) -> Value {
        use syn::__private::ToTokens;
        let mut sc = FnScan { macros: Vec::new(), rule_matches: Vec::new(), calls: Vec::new(), rule_filters: Vec::new() };
        sc.visit_block(block);
        let ret = match &sig.output {
            syn::ReturnType::Default => String::new(),
            syn::ReturnType::Type(_, t) => t.to_token_stream().to_string(),
        };
        // a body that is one tail expression (`fn zero() -> T { expr }`)
        let tail = if block.stmts.len() == 1 {
            match &block.stmts[0] {
                syn::Stmt::Expr(e, None) => quote_expr(e),
                _ => String::new(),
            }
        } else {
            String::new()
        };
        json!({
            "impl": self_ty,
            "impl_attrs": attrs,
            "name": sig.ident.to_string(),
            "line": sig.ident.span().start().line,
            "ret": ret,
            "nargs": sig.inputs.len(),
            "match_nodes": sc.macros,
            "rule_matches": sc.rule_matches,
            "calls": sc.calls,
            "rule_filters": sc.rule_filters,
            "tail": tail,
            "params": sig.inputs.iter().map(|a| match a {
                syn::FnArg::Typed(t) => rpat_json(&t.pat),
                syn::FnArg::Receiver(_) => json!({"k":"id","s":"self"}),
            }).collect::<Vec<_>>(),
            "body_ast": rblock_json(block),
            "body": block.to_token_stream().to_string(),
        })
    }
    for item in &file.items {
        if let syn::Item::Fn(f) = item {
            fns.push(scan_fn("", &[], &f.sig, &f.block));
        }
        if let syn::Item::Impl(imp) = item {
            let self_ty = {
                use syn::__private::ToTokens;
                imp.self_ty.to_token_stream().to_string()
            };
            let attrs: Vec<String> = imp
                .attrs
                .iter()
                .map(|a| a.path().segments.iter().map(|s| s.ident.to_string()).collect::<Vec<_>>().join("::"))
                .collect();
            for ii in &imp.items {
                if let syn::ImplItem::Fn(f) = ii {
                    fns.push(scan_fn(&self_ty, &attrs, &f.sig, &f.block));
                }
            }
        }
    }
    json!({"file": path, "fns": fns})
}

fn main() {
    let args: Vec<String> = std::env::args().collect();
    if args.len() < 2 {
        eprintln!("usage: srcfacts <grammar.pest> [file.rs ...]");
        std::process::exit(2);
    }
    let grammar = grammar_json(&args[1]);
    let files: Vec<Value> = args[2..].iter().map(|p| rust_file_json(p)).collect();
    println!("{}", json!({"grammar": grammar, "rust": files}));
}
