//! mirfacts — a rustc_private driver that dumps type-checked MIR facts as JSON.
//!
//! Used as RUSTC_WORKSPACE_WRAPPER under `cargo +nightly check`. For every workspace
//! crate it writes `$MIRFACTS_OUT/<crate>.<kind>.json` (one write per process).
//! Nothing is executed or interpreted: bodies are serialised as the compiler built them
//! (`optimized_mir` at `-Zmir-opt-level=0`), with callees resolved through
//! `Instance::try_resolve`, named constants evaluated, and macro-expansion origin attached
//! to every statement/terminator.
#![feature(rustc_private)]
#![allow(clippy::all)]

extern crate rustc_abi;
extern crate rustc_driver;
extern crate rustc_hir;
extern crate rustc_interface;
extern crate rustc_middle;
extern crate rustc_span;

use rustc_driver::{Callbacks, Compilation};
use rustc_hir::def::DefKind;
use rustc_hir::def_id::{DefId, LOCAL_CRATE};
use rustc_interface::interface;
use rustc_middle::mir::{
    self, AggregateKind, AssertKind, BasicBlock, Body, Const, Operand, Place,
    PlaceElem, Rvalue, StatementKind, TerminatorKind,
};
use rustc_middle::ty::print::{with_no_trimmed_paths, with_no_visible_paths, with_resolve_crate_name};
use rustc_middle::ty::{self, Instance, Ty, TyCtxt, TypingEnv};
use rustc_span::{ExpnKind, MacroKind, Span};
use std::collections::{BTreeMap, BTreeSet, HashSet};
use std::fmt::Write as _;

// ---------------------------------------------------------------- JSON helpers

fn esc(s: &str) -> String {
    let mut o = String::with_capacity(s.len() + 2);
    o.push('"');
    for c in s.chars() {
        match c {
            '"' => o.push_str("\\\""),
            '\\' => o.push_str("\\\\"),
            '\n' => o.push_str("\\n"),
            '\r' => o.push_str("\\r"),
            '\t' => o.push_str("\\t"),
            c if (c as u32) < 0x20 => {
                let _ = write!(o, "\\u{:04x}", c as u32);
            }
            c => o.push(c),
        }
    }
    o.push('"');
    o
}

fn jopt(s: &Option<String>) -> String {
    match s {
        Some(s) => esc(s),
        None => "null".into(),
    }
}

fn jlist(items: &[String]) -> String {
    format!("[{}]", items.join(","))
}

// ---------------------------------------------------------------- printing paths

fn full<T>(f: impl FnOnce() -> T) -> T {
    with_resolve_crate_name!(with_no_visible_paths!(with_no_trimmed_paths!(f())))
}

fn path_of(tcx: TyCtxt<'_>, did: DefId) -> String {
    full(|| tcx.def_path_str(did))
}

fn ty_str<'tcx>(ty: Ty<'tcx>) -> String {
    full(|| format!("{}", ty))
}

// ---------------------------------------------------------------- spans / macros

struct SpanInfo {
    file: String,
    line: usize,
    col: usize,
    /// outermost user-visible macro (name, kind) this code was expanded from, if any
    outer_mac: Option<String>,
    /// innermost macro name
    inner_mac: Option<String>,
    /// true if any macro in the chain is defined outside the local crate set
    desugar: Option<String>,
}

fn span_info(tcx: TyCtxt<'_>, span: Span) -> SpanInfo {
    let sm = tcx.sess.source_map();
    let mut outer_mac = None;
    let mut inner_mac = None;
    let mut desugar = None;
    let mut sp = span;
    // walk the expansion chain outwards
    let mut guard = 0;
    while sp.from_expansion() && guard < 64 {
        guard += 1;
        let ed = sp.ctxt().outer_expn_data();
        match ed.kind {
            ExpnKind::Macro(kind, name) => {
                let k = match kind {
                    MacroKind::Bang => "!",
                    MacroKind::Attr => "#",
                    MacroKind::Derive => "derive:",
                };
                let path = match ed.macro_def_id {
                    Some(d) => path_of(tcx, d),
                    None => name.to_string(),
                };
                let label = format!("{}{}", k, path);
                if inner_mac.is_none() {
                    inner_mac = Some(label.clone());
                }
                outer_mac = Some(label);
            }
            ExpnKind::Desugaring(d) => {
                if desugar.is_none() {
                    desugar = Some(format!("{:?}", d));
                }
            }
            ExpnKind::AstPass(_) | ExpnKind::Root => {}
        }
        sp = ed.call_site;
    }
    let loc = sm.lookup_char_pos(sp.lo());
    let file = match &loc.file.name {
        rustc_span::FileName::Real(r) => match r.local_path() {
            Some(p) => p.to_string_lossy().into_owned(),
            None => format!("{:?}", r),
        },
        other => format!("{:?}", other),
    };
    SpanInfo { file, line: loc.line, col: loc.col.0 + 1, outer_mac, inner_mac, desugar }
}

fn span_json(tcx: TyCtxt<'_>, span: Span, body_file: &str) -> String {
    let si = span_info(tcx, span);
    let mut s = String::new();
    if si.file == body_file {
        let _ = write!(s, "\"sp\":\"{}:{}\"", si.line, si.col);
    } else {
        let _ = write!(s, "\"sp\":{}", esc(&format!("{}:{}:{}", si.file, si.line, si.col)));
    }
    if let Some(m) = &si.outer_mac {
        let _ = write!(s, ",\"mac\":{}", esc(m));
        if si.inner_mac != si.outer_mac {
            let _ = write!(s, ",\"imac\":{}", jopt(&si.inner_mac));
        }
    }
    if let Some(d) = &si.desugar {
        let _ = write!(s, ",\"desugar\":{}", esc(d));
    }
    s
}

fn byte_array<'tcx>(tcx: TyCtxt<'tcx>, cv: mir::ConstValue, n: u64) -> Option<Vec<u8>> {
    use rustc_middle::mir::interpret::Scalar;
    if let mir::ConstValue::Scalar(Scalar::Ptr(ptr, _)) = cv {
        let (prov, off) = ptr.prov_and_relative_offset();
        let alloc = tcx.global_alloc(prov.alloc_id());
        if let rustc_middle::mir::interpret::GlobalAlloc::Memory(m) = alloc {
            let a = m.inner();
            let start = off.bytes() as usize;
            let end = start + n as usize;
            if end <= a.size().bytes() as usize {
                return Some(a.inspect_with_uninit_and_ptr_outside_interpreter(start..end).to_vec());
            }
        }
    }
    None
}

// ---------------------------------------------------------------- body dumper

struct Dumper<'a, 'tcx> {
    tcx: TyCtxt<'tcx>,
    body: &'a Body<'tcx>,
    def_id: DefId,
    typing_env: TypingEnv<'tcx>,
    file: String,
}

impl<'a, 'tcx> Dumper<'a, 'tcx> {
    fn place(&self, p: &Place<'tcx>) -> String {
        let tcx = self.tcx;
        let mut projs: Vec<String> = Vec::new();
        let mut pty = mir::PlaceTy::from_ty(self.body.local_decls[p.local].ty);
        for elem in p.projection.iter() {
            let s = match elem {
                PlaceElem::Deref => "\"deref\"".to_string(),
                PlaceElem::Field(f, _fty) => {
                    let mut name: Option<String> = None;
                    let mut adt_path: Option<String> = None;
                    let mut vname: Option<String> = None;
                    match pty.ty.kind() {
                        ty::Adt(adt, _) => {
                            let vidx = pty.variant_index.unwrap_or(rustc_abi::FIRST_VARIANT);
                            if vidx.as_usize() < adt.variants().len() {
                                let v = adt.variant(vidx);
                                if f.as_usize() < v.fields.len() {
                                    name = Some(v.fields[f].name.to_string());
                                }
                                if adt.is_enum() {
                                    vname = Some(v.name.to_string());
                                }
                            }
                            adt_path = Some(path_of(tcx, adt.did()));
                        }
                        ty::Closure(..) | ty::Coroutine(..) | ty::CoroutineClosure(..) => {
                            adt_path = Some("{closure-env}".into());
                        }
                        ty::Tuple(_) => {
                            adt_path = Some("{tuple}".into());
                        }
                        _ => {}
                    }
                    let mut s = format!("{{\"f\":{}", f.as_usize());
                    if let Some(n) = &name {
                        let _ = write!(s, ",\"n\":{}", esc(n));
                    }
                    if let Some(a) = &adt_path {
                        let _ = write!(s, ",\"adt\":{}", esc(a));
                    }
                    if let Some(v) = &vname {
                        let _ = write!(s, ",\"v\":{}", esc(v));
                    }
                    s.push('}');
                    s
                }
                PlaceElem::Index(l) => format!("{{\"idx\":{}}}", l.as_usize()),
                PlaceElem::ConstantIndex { offset, from_end, .. } => {
                    format!("{{\"cidx\":{},\"from_end\":{}}}", offset, from_end)
                }
                PlaceElem::Subslice { from, to, from_end } => {
                    format!("{{\"sub\":[{},{}],\"from_end\":{}}}", from, to, from_end)
                }
                PlaceElem::Downcast(sym, vidx) => {
                    let n = match sym {
                        Some(s) => s.to_string(),
                        None => format!("#{}", vidx.as_usize()),
                    };
                    format!("{{\"dc\":{}}}", esc(&n))
                }
                PlaceElem::OpaqueCast(_) => "\"opaque\"".to_string(),
                PlaceElem::UnwrapUnsafeBinder(_) => "\"unwrap_binder\"".to_string(),
            };
            projs.push(s);
            pty = pty.projection_ty(tcx, elem);
        }
        if projs.is_empty() {
            format!("{{\"l\":{}}}", p.local.as_usize())
        } else {
            format!("{{\"l\":{},\"p\":{}}}", p.local.as_usize(), jlist(&projs))
        }
    }

    fn konst(&self, c: &Const<'tcx>) -> String {
        let tcx = self.tcx;
        let ty = c.ty();
        let mut s = format!("{{\"ty\":{}", esc(&ty_str(ty)));
        let disp = full(|| format!("{}", c));
        let _ = write!(s, ",\"disp\":{}", esc(&disp));
        if let ty::FnDef(did, args) = ty.kind() {
            let (resolved, orig) = self.resolve(*did, args);
            let _ = write!(s, ",\"fn\":{}", esc(&resolved));
            if orig != resolved {
                let _ = write!(s, ",\"fn_orig\":{}", esc(&orig));
            }
        }
        if let Const::Unevaluated(u, _) = c {
            match u.promoted {
                None => {
                    let _ = write!(s, ",\"def\":{}", esc(&path_of(tcx, u.def)));
                }
                Some(pi) => {
                    let _ = write!(s, ",\"promoted\":{}", pi.as_usize());
                }
            }
        }
        let scalar_ok = ty.is_integral() || ty.is_bool() || ty.is_char();
        if scalar_ok {
            if let Some(si) = c.try_eval_scalar_int(tcx, self.typing_env) {
                let size = si.size();
                let v: String = if ty.is_signed() {
                    format!("{}", si.to_int(size))
                } else {
                    format!("{}", si.to_uint(size))
                };
                let _ = write!(s, ",\"int\":{}", esc(&v));
            }
        }
        if let ty::Ref(_, inner, _) = ty.kind() {
            if inner.is_str() {
                if let Ok(cv) = c.eval(tcx, self.typing_env, rustc_span::DUMMY_SP) {
                    if let Some(bytes) = cv.try_get_slice_bytes_for_diagnostics(tcx) {
                        if let Ok(st) = std::str::from_utf8(bytes) {
                            let _ = write!(s, ",\"str\":{}", esc(st));
                        }
                    }
                }
            }
        }
        if let ty::Ref(_, inner, _) = ty.kind() {
            if let ty::Array(elem, len) = inner.kind() {
                if *elem == tcx.types.u8 {
                    if let Some(n) = len.try_to_target_usize(tcx) {
                        if let Ok(cv) = c.eval(tcx, self.typing_env, rustc_span::DUMMY_SP) {
                            if let Some(b) = byte_array(tcx, cv, n) {
                                let hex: String = b.iter().map(|x| format!("{:02x}", x)).collect();
                                let _ = write!(s, ",\"bytes\":{}", esc(&hex));
                            }
                        }
                    }
                }
            }
        }
        s.push('}');
        s
    }

    fn operand(&self, o: &Operand<'tcx>) -> String {
        match o {
            Operand::Copy(p) => format!("{{\"c\":{}}}", self.place(p)),
            Operand::Move(p) => format!("{{\"m\":{}}}", self.place(p)),
            Operand::Constant(c) => format!("{{\"k\":{}}}", self.konst(&c.const_)),
            other => format!("{{\"other\":{}}}", esc(&format!("{:?}", other))),
        }
    }

    /// resolve a callee (def + generic args) to the concrete impl where possible
    fn resolve(&self, did: DefId, args: ty::GenericArgsRef<'tcx>) -> (String, String) {
        let tcx = self.tcx;
        let orig = path_of(tcx, did);
        let resolved = match Instance::try_resolve(tcx, self.typing_env, did, args) {
            Ok(Some(inst)) => {
                let rd = inst.def_id();
                match inst.def {
                    ty::InstanceKind::Item(_) => path_of(tcx, rd),
                    ty::InstanceKind::Virtual(..) => format!("dyn:{}", path_of(tcx, rd)),
                    ty::InstanceKind::ClosureOnceShim { .. }
                    | ty::InstanceKind::FnPtrShim(..)
                    | ty::InstanceKind::ReifyShim(..) => format!("shim:{}", path_of(tcx, rd)),
                    _ => path_of(tcx, rd),
                }
            }
            _ => orig.clone(),
        };
        (resolved, orig)
    }

    fn rvalue(&self, rv: &Rvalue<'tcx>) -> String {
        let tcx = self.tcx;
        match rv {
            Rvalue::Use(op, ..) => format!("{{\"k\":\"use\",\"op\":{}}}", self.operand(op)),
            Rvalue::CopyForDeref(p) => {
                format!("{{\"k\":\"use\",\"op\":{{\"c\":{}}}}}", self.place(p))
            }
            Rvalue::Ref(_, bk, p) => {
                let m = matches!(bk, mir::BorrowKind::Mut { .. });
                format!("{{\"k\":\"ref\",\"mut\":{},\"p\":{}}}", m, self.place(p))
            }
            Rvalue::RawPtr(_, p) => format!("{{\"k\":\"rawptr\",\"p\":{}}}", self.place(p)),
            Rvalue::BinaryOp(op, ab) => format!(
                "{{\"k\":\"bin\",\"op\":\"{:?}\",\"a\":{},\"b\":{}}}",
                op,
                self.operand(&ab.0),
                self.operand(&ab.1)
            ),
            Rvalue::UnaryOp(op, a) => {
                format!("{{\"k\":\"un\",\"op\":\"{:?}\",\"a\":{}}}", op, self.operand(a))
            }
            Rvalue::Discriminant(p) => format!("{{\"k\":\"discr\",\"p\":{}}}", self.place(p)),
            Rvalue::Cast(kind, op, ty) => format!(
                "{{\"k\":\"cast\",\"kind\":{},\"op\":{},\"ty\":{}}}",
                esc(&format!("{:?}", kind)),
                self.operand(op),
                esc(&ty_str(*ty))
            ),
            Rvalue::Repeat(op, _) => format!("{{\"k\":\"repeat\",\"op\":{}}}", self.operand(op)),
            Rvalue::Aggregate(kind, ops) => {
                let opl: Vec<String> = ops.iter().map(|o| self.operand(o)).collect();
                match &**kind {
                    AggregateKind::Adt(did, vidx, _args, _, _) => {
                        let adt = tcx.adt_def(*did);
                        let v = adt.variant(*vidx);
                        let names: Vec<String> =
                            v.fields.iter().map(|f| esc(&f.name.to_string())).collect();
                        format!(
                            "{{\"k\":\"agg\",\"adt\":{},\"variant\":{},\"enum\":{},\"fields\":{},\"ops\":{}}}",
                            esc(&path_of(tcx, *did)),
                            esc(&v.name.to_string()),
                            adt.is_enum(),
                            jlist(&names),
                            jlist(&opl)
                        )
                    }
                    AggregateKind::Tuple => format!("{{\"k\":\"tuple\",\"ops\":{}}}", jlist(&opl)),
                    AggregateKind::Array(_) => format!("{{\"k\":\"array\",\"ops\":{}}}", jlist(&opl)),
                    AggregateKind::Closure(did, _) => format!(
                        "{{\"k\":\"closure\",\"id\":{},\"ops\":{}}}",
                        esc(&path_of(tcx, *did)),
                        jlist(&opl)
                    ),
                    AggregateKind::Coroutine(did, _) | AggregateKind::CoroutineClosure(did, _) => {
                        format!(
                            "{{\"k\":\"coroutine\",\"id\":{},\"ops\":{}}}",
                            esc(&path_of(tcx, *did)),
                            jlist(&opl)
                        )
                    }
                    AggregateKind::RawPtr(..) => {
                        format!("{{\"k\":\"rawptr_agg\",\"ops\":{}}}", jlist(&opl))
                    }
                }
            }
            other => format!("{{\"k\":\"other\",\"dbg\":{}}}", esc(&format!("{:?}", other))),
        }
    }

    fn bb(b: BasicBlock) -> usize {
        b.as_usize()
    }

    fn unwind(u: &mir::UnwindAction) -> String {
        match u {
            mir::UnwindAction::Cleanup(b) => format!("{}", b.as_usize()),
            _ => "null".into(),
        }
    }

    fn terminator(&self, t: &mir::Terminator<'tcx>) -> String {
        let tcx = self.tcx;
        let sp = span_json(tcx, t.source_info.span, &self.file);
        match &t.kind {
            TerminatorKind::Goto { target } => {
                format!("{{\"k\":\"goto\",\"target\":{}}}", Self::bb(*target))
            }
            TerminatorKind::SwitchInt { discr, targets } => {
                let dty = discr.ty(self.body, tcx);
                let ts: Vec<String> = targets
                    .iter()
                    .map(|(v, b)| {
                        // present values as signed when the discr type is signed
                        let vs = if dty.is_signed() {
                            let size = match tcx.layout_of(self.typing_env.as_query_input(dty)) {
                                Ok(l) => l.size,
                                Err(_) => rustc_abi::Size::from_bits(128),
                            };
                            format!("{}", size.sign_extend(v) as i128)
                        } else {
                            format!("{}", v)
                        };
                        format!("[{},{}]", esc(&vs), Self::bb(b))
                    })
                    .collect();
                format!(
                    "{{\"k\":\"switch\",\"discr\":{},\"dty\":{},\"targets\":{},\"otherwise\":{},{}}}",
                    self.operand(discr),
                    esc(&ty_str(dty)),
                    jlist(&ts),
                    Self::bb(targets.otherwise()),
                    sp
                )
            }
            TerminatorKind::Return => "{\"k\":\"return\"}".to_string(),
            TerminatorKind::Unreachable => "{\"k\":\"unreachable\"}".to_string(),
            TerminatorKind::UnwindResume => "{\"k\":\"resume\"}".to_string(),
            TerminatorKind::UnwindTerminate(_) => "{\"k\":\"abort\"}".to_string(),
            TerminatorKind::CoroutineDrop => "{\"k\":\"coroutine_drop\"}".to_string(),
            TerminatorKind::Drop { place, target, unwind, .. } => format!(
                "{{\"k\":\"drop\",\"p\":{},\"target\":{},\"unwind\":{}}}",
                self.place(place),
                Self::bb(*target),
                Self::unwind(unwind)
            ),
            TerminatorKind::Yield { value, resume, drop, .. } => format!(
                "{{\"k\":\"yield\",\"value\":{},\"target\":{},\"drop\":{},{}}}",
                self.operand(value),
                Self::bb(*resume),
                match drop {
                    Some(d) => format!("{}", d.as_usize()),
                    None => "null".into(),
                },
                sp
            ),
            TerminatorKind::Assert { cond, expected, msg, target, unwind } => {
                let (kind, ops): (String, Vec<String>) = match &**msg {
                    AssertKind::BoundsCheck { len, index } => {
                        ("BoundsCheck".into(), vec![self.operand(len), self.operand(index)])
                    }
                    AssertKind::Overflow(op, a, b) => {
                        (format!("Overflow({:?})", op), vec![self.operand(a), self.operand(b)])
                    }
                    AssertKind::OverflowNeg(a) => ("OverflowNeg".into(), vec![self.operand(a)]),
                    AssertKind::DivisionByZero(a) => ("DivisionByZero".into(), vec![self.operand(a)]),
                    AssertKind::RemainderByZero(a) => {
                        ("RemainderByZero".into(), vec![self.operand(a)])
                    }
                    AssertKind::ResumedAfterReturn(_) => ("ResumedAfterReturn".into(), vec![]),
                    AssertKind::ResumedAfterPanic(_) => ("ResumedAfterPanic".into(), vec![]),
                    AssertKind::ResumedAfterDrop(_) => ("ResumedAfterDrop".into(), vec![]),
                    AssertKind::MisalignedPointerDereference { .. } => {
                        ("MisalignedPointerDereference".into(), vec![])
                    }
                    AssertKind::NullPointerDereference => ("NullPointerDereference".into(), vec![]),
                    AssertKind::InvalidEnumConstruction(_) => {
                        ("InvalidEnumConstruction".into(), vec![])
                    }
                };
                format!(
                    "{{\"k\":\"assert\",\"cond\":{},\"expected\":{},\"msg\":{},\"ops\":{},\"target\":{},\"unwind\":{},{}}}",
                    self.operand(cond),
                    expected,
                    esc(&kind),
                    jlist(&ops),
                    Self::bb(*target),
                    Self::unwind(unwind),
                    sp
                )
            }
            TerminatorKind::Call { func, args, .. }
            | TerminatorKind::TailCall { func, args, .. } => {
                let (destination, target, unwind) = match &t.kind {
                    TerminatorKind::Call { destination, target, unwind, .. } => {
                        (Some(destination), *target, Self::unwind(unwind))
                    }
                    _ => (None, None, "null".to_string()),
                };
                let fty = func.ty(self.body, tcx);
                let (callee, orig, gargs, via) = match fty.kind() {
                    ty::FnDef(did, gargs) => {
                        let (r, o) = self.resolve(*did, gargs);
                        let ga: Vec<String> =
                            gargs.iter().map(|a| esc(&full(|| format!("{}", a)))).collect();
                        (r, o, ga, "def")
                    }
                    ty::FnPtr(..) => ("<fnptr>".to_string(), "<fnptr>".to_string(), vec![], "ptr"),
                    _ => (
                        format!("<indirect:{}>", ty_str(fty)),
                        "<indirect>".to_string(),
                        vec![],
                        "other",
                    ),
                };
                let al: Vec<String> = args.iter().map(|a| self.operand(&a.node)).collect();
                let aty: Vec<String> =
                    args.iter().map(|a| esc(&ty_str(a.node.ty(self.body, tcx)))).collect();
                let mut s = format!(
                    "{{\"k\":\"call\",\"callee\":{},\"args\":{},\"aty\":{},\"gargs\":{},\"via\":\"{}\"",
                    esc(&callee),
                    jlist(&al),
                    jlist(&aty),
                    jlist(&gargs),
                    via
                );
                if orig != callee {
                    let _ = write!(s, ",\"orig\":{}", esc(&orig));
                }
                if via != "def" {
                    let _ = write!(s, ",\"func\":{}", self.operand(func));
                }
                if let Some(d) = destination {
                    let _ = write!(s, ",\"dest\":{}", self.place(d));
                    let _ = write!(s, ",\"dty\":{}", esc(&ty_str(d.ty(self.body, tcx).ty)));
                }
                let _ = write!(
                    s,
                    ",\"target\":{},\"unwind\":{},{}}}",
                    match target {
                        Some(b) => format!("{}", b.as_usize()),
                        None => "null".into(),
                    },
                    unwind,
                    sp
                );
                s
            }
            TerminatorKind::FalseEdge { real_target, .. } => {
                format!("{{\"k\":\"goto\",\"target\":{}}}", Self::bb(*real_target))
            }
            TerminatorKind::FalseUnwind { real_target, .. } => {
                format!("{{\"k\":\"goto\",\"target\":{}}}", Self::bb(*real_target))
            }
            TerminatorKind::InlineAsm { .. } => "{\"k\":\"asm\"}".to_string(),
        }
    }

    fn dump(&self) -> String {
        let tcx = self.tcx;
        let body = self.body;
        let did = self.def_id;
        let kind = tcx.def_kind(did);
        let kind_s = match kind {
            DefKind::Fn => "fn",
            DefKind::AssocFn => "method",
            DefKind::Closure => {
                if tcx.is_coroutine(did) {
                    "coroutine"
                } else {
                    "closure"
                }
            }
            DefKind::Const { .. } | DefKind::AssocConst { .. } => "const",
            DefKind::Static { .. } => "static",
            DefKind::AnonConst | DefKind::InlineConst => "anonconst",
            _ => "other",
        };
        let si = span_info(tcx, body.span);
        let sm = tcx.sess.source_map();
        let end_line = sm.lookup_char_pos(body.span.source_callsite().hi()).line;
        let parent = if matches!(kind, DefKind::Closure | DefKind::InlineConst | DefKind::AnonConst) {
            Some(path_of(tcx, tcx.typeck_root_def_id(did)))
        } else {
            None
        };
        // local names from debug info
        let mut names: BTreeMap<usize, String> = BTreeMap::new();
        let mut upvar_names: Vec<String> = Vec::new();
        for vdi in &body.var_debug_info {
            if let mir::VarDebugInfoContents::Place(p) = &vdi.value {
                if p.projection.is_empty() {
                    names.entry(p.local.as_usize()).or_insert_with(|| vdi.name.to_string());
                } else {
                    upvar_names.push(format!(
                        "[{},{}]",
                        self.place(p),
                        esc(&vdi.name.to_string())
                    ));
                }
            }
        }
        let locals: Vec<String> = body
            .local_decls
            .iter_enumerated()
            .map(|(l, d)| {
                let mut s = format!("{{\"ty\":{}", esc(&ty_str(d.ty)));
                if let Some(n) = names.get(&l.as_usize()) {
                    let _ = write!(s, ",\"name\":{}", esc(n));
                }
                s.push('}');
                s
            })
            .collect();
        let blocks: Vec<String> = body
            .basic_blocks
            .iter()
            .map(|bbd| {
                let mut stmts: Vec<String> = Vec::new();
                for st in &bbd.statements {
                    match &st.kind {
                        StatementKind::Assign(b) => {
                            let (lhs, rv) = &**b;
                            stmts.push(format!(
                                "{{\"lhs\":{},\"rv\":{},{}}}",
                                self.place(lhs),
                                self.rvalue(rv),
                                span_json(tcx, st.source_info.span, &self.file)
                            ));
                        }
                        StatementKind::SetDiscriminant { place, variant_index } => {
                            stmts.push(format!(
                                "{{\"setdiscr\":{},\"variant\":{},{}}}",
                                self.place(place),
                                variant_index.as_usize(),
                                span_json(tcx, st.source_info.span, &self.file)
                            ));
                        }
                        _ => {}
                    }
                }
                let term = match &bbd.terminator {
                    Some(t) => self.terminator(t),
                    None => "{\"k\":\"none\"}".into(),
                };
                format!(
                    "{{\"stmts\":{},\"term\":{}{}}}",
                    jlist(&stmts),
                    term,
                    if bbd.is_cleanup { ",\"cleanup\":true" } else { "" }
                )
            })
            .collect();
        let vis = if matches!(kind, DefKind::Fn | DefKind::AssocFn) {
            format!("{:?}", tcx.visibility(did))
        } else {
            String::new()
        };
        let mut s = format!(
            "{{\"id\":{},\"kind\":\"{}\",\"file\":{},\"line\":{},\"end_line\":{},\"argc\":{}",
            esc(&path_of(tcx, did)),
            kind_s,
            esc(&si.file),
            si.line,
            end_line,
            body.arg_count
        );
        if let Some(m) = &si.outer_mac {
            let _ = write!(s, ",\"mac\":{}", esc(m));
        }
        if let Some(p) = &parent {
            let _ = write!(s, ",\"parent\":{}", esc(p));
        }
        if !vis.is_empty() {
            let _ = write!(s, ",\"vis\":{}", esc(&vis));
        }
        // promoted constants: which named constants / literals each one is built from
        if did.is_local() {
            let proms = tcx.promoted_mir(did);
            let mut pl: Vec<String> = Vec::new();
            for (pi, pb) in proms.iter_enumerated() {
                let pd = Dumper { tcx, body: pb, def_id: did, typing_env: self.typing_env, file: self.file.clone() };
                let mut items: Vec<String> = Vec::new();
                for bbd in pb.basic_blocks.iter() {
                    for st in &bbd.statements {
                        if let StatementKind::Assign(b) = &st.kind {
                            items.push(pd.rvalue(&b.1));
                        }
                    }
                    if let Some(t) = &bbd.terminator {
                        if let TerminatorKind::Call { .. } = &t.kind {
                            items.push(pd.terminator(t));
                        }
                    }
                }
                pl.push(format!("\"{}\":{}", pi.as_usize(), jlist(&items)));
            }
            let _ = write!(s, ",\"promoted\":{{{}}}", pl.join(","));
        }
        let _ = write!(
            s,
            ",\"ret\":{},\"locals\":{},\"upvars\":{},\"blocks\":{}}}",
            esc(&ty_str(body.return_ty())),
            jlist(&locals),
            jlist(&upvar_names),
            jlist(&blocks)
        );
        s
    }
}

// ---------------------------------------------------------------- type facts

/// Paths (as strings) by which an `UnsafeCell` is reachable *by value or through owning
/// pointers* from `ty`. Reference-count cells inside `ArcInner`/`RcInner` are skipped.
fn cells_reachable<'tcx>(
    tcx: TyCtxt<'tcx>,
    ty: Ty<'tcx>,
    path: &mut Vec<String>,
    seen: &mut HashSet<Ty<'tcx>>,
    out: &mut BTreeSet<String>,
    opaque: &mut BTreeSet<String>,
    depth: usize,
) {
    if depth > 40 || !seen.insert(ty) {
        return;
    }
    match ty.kind() {
        ty::Adt(adt, args) => {
            let p = path_of(tcx, adt.did());
            if p == "core::cell::UnsafeCell" || p == "std::cell::UnsafeCell" {
                out.insert(path.join(" -> "));
                return;
            }
            for v in adt.variants() {
                for f in &v.fields {
                    let fname = f.name.to_string();
                    // reference counts of shared pointers are not program state
                    if (p.ends_with("ArcInner") || p.ends_with("RcInner") || p.ends_with("RcBox"))
                        && (fname == "strong" || fname == "weak")
                    {
                        continue;
                    }
                    let fty = f.ty(tcx, args);
                    let fty = tcx
                        .try_normalize_erasing_regions(
                            TypingEnv::fully_monomorphized(),
                            rustc_middle::ty::Unnormalized::new_wip(fty),
                        )
                        .unwrap_or(fty);
                    path.push(format!("{}.{}", p, fname));
                    cells_reachable(tcx, fty, path, seen, out, opaque, depth + 1);
                    path.pop();
                }
            }
        }
        ty::Tuple(ts) => {
            for t in ts.iter() {
                cells_reachable(tcx, t, path, seen, out, opaque, depth + 1);
            }
        }
        ty::Array(t, _) | ty::Slice(t) => cells_reachable(tcx, *t, path, seen, out, opaque, depth + 1),
        ty::RawPtr(t, _) => cells_reachable(tcx, *t, path, seen, out, opaque, depth + 1),
        ty::Ref(_, t, _) => cells_reachable(tcx, *t, path, seen, out, opaque, depth + 1),
        ty::Dynamic(..) => {
            opaque.insert(format!("{} -> {}", path.join(" -> "), ty_str(ty)));
        }
        ty::Param(_) | ty::Alias(..) => {
            opaque.insert(format!("{} -> {}", path.join(" -> "), ty_str(ty)));
        }
        _ => {}
    }
}

fn type_facts(tcx: TyCtxt<'_>) -> (Vec<String>, Vec<String>, Vec<String>, Vec<String>) {
    let mut adts = Vec::new();
    let mut impls = Vec::new();
    let mut statics = Vec::new();
    let mut consts = Vec::new();
    let items = tcx.hir_crate_items(());
    for id in items.definitions() {
        let did = id.to_def_id();
        match tcx.def_kind(did) {
            DefKind::Struct | DefKind::Enum | DefKind::Union => {
                let adt = tcx.adt_def(did);
                let generics = tcx.generics_of(did);
                let vs: Vec<String> = adt
                    .variants()
                    .iter()
                    .map(|v| {
                        let fs: Vec<String> = v
                            .fields
                            .iter()
                            .map(|f| {
                                let fty = tcx.type_of(f.did).instantiate_identity().skip_norm_wip();
                                format!(
                                    "{{\"name\":{},\"ty\":{},\"vis\":{}}}",
                                    esc(&f.name.to_string()),
                                    esc(&ty_str(fty)),
                                    esc(&format!("{:?}", f.vis))
                                )
                            })
                            .collect();
                        format!("{{\"name\":{},\"fields\":{}}}", esc(&v.name.to_string()), jlist(&fs))
                    })
                    .collect();
                let mut cells = BTreeSet::new();
                let mut opaque = BTreeSet::new();
                if generics.count() == generics.own_params.iter().filter(|p| matches!(p.kind, ty::GenericParamDefKind::Lifetime)).count() {
                    let self_ty = tcx.type_of(did).instantiate_identity().skip_norm_wip();
                    let mut seen = HashSet::new();
                    let mut path = Vec::new();
                    cells_reachable(tcx, self_ty, &mut path, &mut seen, &mut cells, &mut opaque, 0);
                }
                let cl: Vec<String> = cells.iter().map(|c| esc(c)).collect();
                let ol: Vec<String> = opaque.iter().map(|c| esc(c)).collect();
                let si = span_info(tcx, tcx.def_span(did));
                adts.push(format!(
                    "{{\"path\":{},\"kind\":\"{}\",\"file\":{},\"line\":{},\"variants\":{},\"cells\":{},\"opaque\":{}}}",
                    esc(&path_of(tcx, did)),
                    if adt.is_enum() { "enum" } else if adt.is_union() { "union" } else { "struct" },
                    esc(&si.file),
                    si.line,
                    jlist(&vs),
                    jlist(&cl),
                    jlist(&ol)
                ));
            }
            DefKind::Impl { of_trait } => {
                let self_ty = tcx.type_of(did).instantiate_identity().skip_norm_wip();
                let tr = if of_trait {
                    let tr = tcx.impl_trait_ref(did).instantiate_identity().skip_norm_wip();
                    Some(path_of(tcx, tr.def_id))
                } else {
                    None
                };
                let derived = tcx.is_automatically_derived(did);
                let si = span_info(tcx, tcx.def_span(did));
                impls.push(format!(
                    "{{\"trait\":{},\"self\":{},\"derived\":{},\"file\":{},\"line\":{},\"mac\":{}}}",
                    jopt(&tr),
                    esc(&ty_str(self_ty)),
                    derived,
                    esc(&si.file),
                    si.line,
                    jopt(&si.outer_mac)
                ));
            }
            DefKind::Static { mutability, .. } => {
                let ty = tcx.type_of(did).instantiate_identity().skip_norm_wip();
                let freeze = ty.is_freeze(tcx, TypingEnv::fully_monomorphized());
                let si = span_info(tcx, tcx.def_span(did));
                statics.push(format!(
                    "{{\"path\":{},\"ty\":{},\"mut\":{},\"freeze\":{},\"file\":{},\"line\":{},\"mac\":{}}}",
                    esc(&path_of(tcx, did)),
                    esc(&ty_str(ty)),
                    mutability.is_mut(),
                    freeze,
                    esc(&si.file),
                    si.line,
                    jopt(&si.outer_mac)
                ));
            }
            DefKind::Const { .. } => {
                let ty = tcx.type_of(did).instantiate_identity().skip_norm_wip();
                let mut val: Option<String> = None;
                if tcx.generics_of(did).count() == 0 {
                    let scalar_ok = ty.is_integral() || ty.is_bool() || ty.is_char();
                    if let Ok(cv) = tcx.const_eval_poly(did) {
                        if scalar_ok {
                            if let Some(si) = cv.try_to_scalar_int() {
                                let size = si.size();
                                val = Some(if ty.is_signed() {
                                    format!("{}", si.to_int(size))
                                } else {
                                    format!("{}", si.to_uint(size))
                                });
                            }
                        } else if let ty::Ref(_, inner, _) = ty.kind() {
                            if inner.is_str() {
                                if let Some(b) = cv.try_get_slice_bytes_for_diagnostics(tcx) {
                                    if let Ok(s) = std::str::from_utf8(b) {
                                        val = Some(s.to_string());
                                    }
                                }
                            }
                        }
                    }
                }
                let si = span_info(tcx, tcx.def_span(did));
                consts.push(format!(
                    "{{\"path\":{},\"ty\":{},\"val\":{},\"file\":{},\"line\":{}}}",
                    esc(&path_of(tcx, did)),
                    esc(&ty_str(ty)),
                    jopt(&val),
                    esc(&si.file),
                    si.line
                ));
            }
            _ => {}
        }
    }
    (adts, impls, statics, consts)
}

// ---------------------------------------------------------------- driver

struct Facts;

impl Callbacks for Facts {
    fn config(&mut self, _config: &mut interface::Config) {}

    fn after_analysis<'tcx>(&mut self, _c: &interface::Compiler, tcx: TyCtxt<'tcx>) -> Compilation {
        let out_dir = match std::env::var("MIRFACTS_OUT") {
            Ok(d) => d,
            Err(_) => return Compilation::Continue,
        };
        let crate_name = tcx.crate_name(LOCAL_CRATE).to_string();
        let crate_types: Vec<String> =
            tcx.crate_types().iter().map(|t| format!("{:?}", t)).collect();
        let is_test = tcx.sess.opts.test;
        let mut bodies: Vec<String> = Vec::new();
        let mut n_calls = 0usize;
        for ldid in tcx.hir_body_owners() {
            let did = ldid.to_def_id();
            let kind = tcx.def_kind(did);
            let ok = matches!(kind, DefKind::Fn | DefKind::AssocFn | DefKind::Closure);
            if !ok {
                continue;
            }
            if !tcx.is_mir_available(did) {
                continue;
            }
            let body = tcx.optimized_mir(did);
            let d = Dumper {
                tcx,
                body,
                def_id: did,
                typing_env: TypingEnv::post_analysis(tcx, did),
                file: span_info(tcx, body.span).file,
            };
            for bb in body.basic_blocks.iter() {
                if let Some(t) = &bb.terminator {
                    if matches!(t.kind, TerminatorKind::Call { .. }) {
                        n_calls += 1;
                    }
                }
            }
            bodies.push(d.dump());
        }
        let (adts, impls, statics, consts) = type_facts(tcx);
        let kind = if crate_types.iter().any(|t| t == "Executable") { "bin" } else { "lib" };
        let out = format!(
            "{{\"crate\":{},\"crate_types\":{},\"test\":{},\"n_bodies\":{},\"n_calls\":{},\"adts\":{},\"impls\":{},\"statics\":{},\"consts\":{},\"bodies\":{}}}\n",
            esc(&crate_name),
            jlist(&crate_types.iter().map(|t| esc(t)).collect::<Vec<_>>()),
            is_test,
            bodies.len(),
            n_calls,
            jlist(&adts),
            jlist(&impls),
            jlist(&statics),
            jlist(&consts),
            jlist(&bodies)
        );
        let suffix = if is_test { ".test" } else { "" };
        let path = format!("{}/{}.{}{}.json", out_dir, crate_name, kind, suffix);
        let tmp = format!("{}.tmp{}", path, std::process::id());
        if std::fs::write(&tmp, out).is_ok() {
            let _ = std::fs::rename(&tmp, &path);
        }
        Compilation::Continue
    }
}

fn main() {
    let mut args: Vec<String> = std::env::args().collect();
    // invoked as RUSTC_WORKSPACE_WRAPPER: argv[1] is the path to the real rustc
    if args.len() > 1 && (args[1].ends_with("rustc") || args[1].contains("/rustc")) {
        args.remove(1);
    }
    let code = rustc_driver::catch_with_exit_code(move || {
        rustc_driver::run_compiler(&args, &mut Facts);
    });
    std::process::exit(if code == std::process::ExitCode::SUCCESS { 0 } else { 1 });
}
